package main

// C13: macro expansion is exact syntactic substitution.
// Structural core (decided on SSA for the whole repository, for every input): the syntax tree is immutable after
// construction.  No function stores into a field of a syntax-tree node, or into an element of a []ast.Node slice, that
// it did not allocate itself in the same activation - with the single listed exception of DefineMacros, which
// removes macro definitions from the statement list of the program it is given (its documented job).  ast.Modify and
// ModifyNoOk in particular only write nodes they allocate (copying rewriter: the sharing bug of issue #223 is a
// store of this kind).  Consequences: a macro definition is not altered by its uses, separate call sites expand
// independently (argument subtrees are inserted by reference, which is harmless exactly because nothing mutates
// them), and macro objects (object.Macro) are written only when they are created.  quoteArgs calls nothing, so
// arguments cannot be evaluated while they are wrapped.
// That the expanded tree equals the hand-substituted one is a relation over all templates: bounded stand-in.

import (
	"fmt"
	"go/types"
	"sort"
	"strings"

	"golang.org/x/tools/go/ssa"
)

func init() { propExtras["C13"] = c13Extras }

// nonFreshNodeSliceWrites: instructions that may write an element of a pre-existing []ast.Node block.
func (p *Prog) nonFreshNodeSliceWrites() map[string][]string {
	isNodeSlice := func(t types.Type) bool {
		sl, ok := t.Underlying().(*types.Slice)
		return ok && strings.HasSuffix(sl.Elem().String(), "grol.io/grol/ast.Node")
	}
	out := map[string][]string{}
	for _, f := range p.allFuncs() {
		for _, b := range f.Blocks {
			for _, ins := range b.Instrs {
				switch x := ins.(type) {
				case *ssa.Store:
					if ia, ok := x.Addr.(*ssa.IndexAddr); ok && isNodeSlice(ia.X.Type()) && !p.freshSlice(ia.X, 0) {
						out[funcKey(f)] = append(out[funcKey(f)], "element store at "+p.posOf(ins))
					}
				case *ssa.Call:
					if bi, ok := x.Call.Value.(*ssa.Builtin); ok && (bi.Name() == "append" || bi.Name() == "copy") {
						if isNodeSlice(x.Call.Args[0].Type()) && !p.freshSlice(x.Call.Args[0], 0) {
							out[funcKey(f)] = append(out[funcKey(f)], bi.Name()+" at "+p.posOf(ins))
						}
						continue
					}
					if callee := staticCallee(&x.Call); callee != nil && len(callee.Blocks) == 0 && !p.externPure(callee) {
						for _, a := range x.Call.Args {
							if isNodeSlice(a.Type()) && !p.freshSlice(a, 0) {
								out[funcKey(f)] = append(out[funcKey(f)], "passed to external "+callee.Name()+" at "+p.posOf(ins))
							}
						}
					}
				}
			}
		}
	}
	return out
}

func c13Extras(cc *CheckCtx) {
	p := cc.P
	allowed := map[string]string{
		"grol.io/grol/eval.(*State).DefineMacros": "removes macro definitions from the statement list of the program it is given (documented)",
	}
	report := func(name string, ws map[string][]string, what string) {
		var fns []string
		for f := range ws {
			fns = append(fns, f)
		}
		sort.Strings(fns)
		bad := 0
		for _, f := range fns {
			short := strings.TrimPrefix(f, "grol.io/grol/")
			if why, ok := allowed[f]; ok {
				cc.audit(name+"."+short, true, fmt.Sprintf("%s in %s: allowed: %s (%s)", what, f, why, strings.Join(ws[f], "; ")), "")
				continue
			}
			bad++
			cc.audit(name+"."+short, false, fmt.Sprintf("%s in %s: a syntax tree that other holders (macro definitions, other call sites, the cache key of a function) still reference is modified in place: %s", what, f, strings.Join(ws[f], "; ")), "")
		}
		cc.audit(name, bad == 0, fmt.Sprintf("%s: %d function(s) outside the allowed list (of %d writers found in the whole repository)", what, bad, len(fns)), "")
	}
	fieldWrites := p.nonFreshFieldWrites("grol.io/grol/ast")
	for f := range fieldWrites {
		// PrintState is the printer's cursor, not a syntax-tree node
		var keep []string
		for _, w := range fieldWrites[f] {
			if !strings.Contains(w, "ast.PrintState.") {
				keep = append(keep, w)
			}
		}
		if len(keep) == 0 {
			delete(fieldWrites, f)
		} else {
			fieldWrites[f] = keep
		}
	}
	report("node-fields-immutable", fieldWrites, "store into a field of a syntax-tree node not allocated by the same activation")
	report("node-slices-immutable", p.nonFreshNodeSliceWrites(), "write into a []ast.Node block not allocated by the same activation")
	macroWrites := map[string][]string{}
	for f, ws := range p.nonFreshFieldWrites("grol.io/grol/object") {
		for _, w := range ws {
			if strings.Contains(w, "object.Macro.") {
				macroWrites[f] = append(macroWrites[f], w)
			}
		}
	}
	report("macro-objects-immutable", macroWrites, "store into a field of an existing object.Macro")
	// quoteArgs wraps arguments without evaluating them: it contains no call except the builtins append/len/cap
	var qa *ssa.Function
	for _, f := range p.allFuncs("eval") {
		if funcKey(f) == "grol.io/grol/eval.quoteArgs" {
			qa = f
		}
	}
	if qa == nil {
		cc.audit("arguments-not-evaluated", false, "eval.quoteArgs not found (renamed?)", "")
	} else {
		ok := true
		where := ""
		for _, b := range qa.Blocks {
			for _, ins := range b.Instrs {
				if c, isCall := ins.(ssa.CallInstruction); isCall {
					if bi, isB := c.Common().Value.(*ssa.Builtin); !isB || (bi.Name() != "append" && bi.Name() != "len" && bi.Name() != "cap") {
						ok = false
						where = p.posOf(ins)
					}
				}
			}
		}
		cc.audit("arguments-not-evaluated", ok, "eval.quoteArgs wraps every argument node in a Quote and calls nothing (so no argument can be evaluated while it is wrapped)", where)
	}
	// parameters are bound in a scope created for the expansion, never in the definition's own environment
	var eme *ssa.Function
	for _, f := range p.allFuncs("eval") {
		if funcKey(f) == "grol.io/grol/eval.extendMacroEnv" {
			eme = f
		}
	}
	if eme == nil {
		cc.audit("parameters-bound-in-fresh-scope", false, "eval.extendMacroEnv not found (renamed?)", "")
	} else {
		ok, n, where := true, 0, ""
		for _, b := range eme.Blocks {
			for _, ins := range b.Instrs {
				c, isCall := ins.(*ssa.Call)
				if !isCall {
					continue
				}
				callee := staticCallee(&c.Call)
				if callee == nil || callee.Signature.Recv() == nil || !strings.HasSuffix(callee.Signature.Recv().Type().String(), "object.Environment") {
					continue
				}
				switch callee.Name() {
				case "Set", "SetNoChecks", "CreateOrSet", "Delete":
					n++
					recv, fromCall := c.Call.Args[0].(*ssa.Call)
					fresh := false
					if fromCall {
						if rc := staticCallee(&recv.Call); rc != nil && (rc.Name() == "NewEnclosedEnvironment" || rc.Name() == "NewRootEnvironment") {
							fresh = true
						}
					}
					if !fresh {
						ok = false
						where = p.posOf(ins)
					}
				}
			}
		}
		cc.audit("parameters-bound-in-fresh-scope", ok && n > 0, fmt.Sprintf("every environment write in eval.extendMacroEnv (%d) goes to the scope it creates itself with NewEnclosedEnvironment, so a macro's own environment is not altered by its uses", n), where)
	}
	// separate call sites expand independently: the per-node callbacks of ExpandMacros / DefineMacros carry nothing from
	// one call site to the next (they write no captured variable and update no captured map or slice)
	{
		n, where := 0, ""
		var bad []string
		for _, f := range p.allFuncs("eval") {
			par := f.Parent()
			if par == nil || (par.Name() != "ExpandMacros" && par.Name() != "DefineMacros" && par.Name() != "evalUnquoteCalls") {
				continue
			}
			n++
			if where == "" {
				where = p.fset.Position(f.Pos()).String()
			}
			fromFree := func(v ssa.Value) bool {
				for depth := 0; depth < 6; depth++ {
					switch x := v.(type) {
					case *ssa.FreeVar:
						return true
					case *ssa.UnOp:
						v = x.X
					case *ssa.FieldAddr:
						// fields of the interpreter state reached through the captured *State are the interpreter's
						// own (macro store, environment), not per-pass state of the expansion
						return false
					case *ssa.IndexAddr:
						v = x.X
					default:
						return false
					}
				}
				return false
			}
			for _, b := range f.Blocks {
				for _, ins := range b.Instrs {
					switch x := ins.(type) {
					case *ssa.Store:
						if fromFree(x.Addr) {
							bad = append(bad, f.Name()+" stores to a captured variable at "+p.posOf(ins))
						}
					case *ssa.MapUpdate:
						if fromFree(x.Map) {
							bad = append(bad, f.Name()+" updates a captured map at "+p.posOf(ins))
						}
					}
				}
			}
		}
		cc.audit("call-sites-share-no-state", len(bad) == 0 && n >= 2, fmt.Sprintf("the %d per-node callbacks of ExpandMacros / DefineMacros / unquote evaluation write no captured variable and update no captured map: an expansion cannot depend on an earlier call site; offenders: %v", n, bad), where)
	}
	cc.runBounded(BoundedSpec{Name: "expansion-vs-substitution", PkgDir: "repl", File: "c13_macro_test.go", Test: "TestVerifBoundedMacros", TimeoutS: 300,
		Contract: "ExpandMacros output prints, re-parses and evaluates like the hand-substituted program; nothing is printed during expansion; the same call expands identically after other uses"})
	cc.Assume = append(cc.Assume,
		"C13: freshness is decided syntactically per activation (make, composite literal, append/re-slice of such, a field of a local object assigned only fresh slices): an object allocated by the activation and already handed to another function that writes it would not be seen - no such flow exists in ast.Modify (the node is passed to the callback last)",
		"C13: that substitution places every argument at the position of its unquote and nowhere else is covered by the bounded stand-in only",
		"C13: reflection and unsafe are not used on syntax-tree nodes")
}
