package main

// Discharging "//@ global" invariants: (1) the invariant is evaluated on the real, initialised package by a generated
// in-package test (deterministic, no inputs: complete); (2) write audit: no function other than the synthetic package
// initialiser stores to the globals it mentions (so it keeps holding).

import (
	"fmt"
	"go/ast"
	"go/types"
	"os"
	"path/filepath"
	"sort"
	"strings"

	"golang.org/x/tools/go/ssa"
)

func rootGlobal(addr ssa.Value) *ssa.Global {
	for {
		switch a := addr.(type) {
		case *ssa.Global:
			return a
		case *ssa.FieldAddr:
			addr = a.X
		case *ssa.IndexAddr:
			addr = a.X
		default:
			return nil
		}
	}
}

func (cc *CheckCtx) checkGlobals() {
	p := cc.P
	byPkg := map[string][]*GlobalInv{}
	for _, g := range p.contracts.Globals {
		byPkg[g.Pkg] = append(byPkg[g.Pkg], g)
	}
	pkgs := sortedKeys(byPkg)
	all := p.allFuncs()
	for _, pk := range pkgs {
		var sp *ssa.Package
		for _, x := range p.prog.AllPackages() {
			if x.Pkg.Path() == pk {
				sp = x
			}
		}
		if sp == nil {
			cc.audit("globals."+pk, false, "package with global invariants not found", "")
			continue
		}
		// globals mentioned
		names := map[string]bool{}
		for _, g := range byPkg[pk] {
			ast.Inspect(g.Clause.Expr, func(n ast.Node) bool {
				if id, ok := n.(*ast.Ident); ok {
					if o := sp.Pkg.Scope().Lookup(id.Name); o != nil {
						if _, isVar := o.(*types.Var); isVar {
							names[id.Name] = true
						}
					}
				}
				return true
			})
		}
		// write audit
		var offenders []string
		for _, f := range all {
			if f.Synthetic != "" && f.Name() == "init" {
				continue
			}
			for _, b := range f.Blocks {
				for _, ins := range b.Instrs {
					if st, ok := ins.(*ssa.Store); ok {
						if g := rootGlobal(st.Addr); g != nil && g.Pkg == sp && names[g.Name()] {
							offenders = append(offenders, fmt.Sprintf("%s writes %s at %s", funcKey(f), g.Name(), p.posOf(st)))
						}
					}
				}
			}
		}
		ns := sortedKeys(names)
		cc.audit("globals.writes."+filepath.Base(pk), len(offenders) == 0,
			fmt.Sprintf("package-level variables %s are written only by the package initialiser %s", strings.Join(ns, ","), strings.Join(offenders, "; ")), "")
		// generated test on the real initialised package
		var b strings.Builder
		fmt.Fprintf(&b, "package %s\n\nimport (\n\t\"fmt\"\n\t\"testing\"\n)\n\nfunc TestVerifGlobalInvariants(t *testing.T) {\n\tn := 0\n\tcheck := func(label string, ok bool) {\n\t\tn++\n\t\tif !ok {\n\t\t\tfmt.Printf(\"BOUNDED-FAIL global invariant %%s does not hold after package initialisation\\n\", label)\n\t\t\tt.Fail()\n\t\t}\n\t}\n", sp.Pkg.Name())
		sort.Slice(byPkg[pk], func(i, j int) bool { return byPkg[pk][i].Clause.Label < byPkg[pk][j].Clause.Label })
		for _, g := range byPkg[pk] {
			fmt.Fprintf(&b, "\tcheck(%q, %s)\n", g.Clause.Label, g.Clause.Text)
		}
		fmt.Fprintf(&b, "\tfmt.Printf(\"BOUNDED evaluations=%%d distinct=%%d exhaustive=true bound=%%q\\n\", n, n, \"the package's global invariants evaluated once on the real initialised package (no inputs)\")\n}\n")
		tmp, err := os.MkdirTemp("", "govc-globals-")
		if err != nil {
			cc.audit("globals."+pk, false, err.Error(), "")
			continue
		}
		file := filepath.Join(tmp, "globals_test.go")
		os.WriteFile(file, []byte(b.String()), 0o644)
		rel := strings.TrimPrefix(strings.TrimPrefix(pk, "grol.io/grol"), "/")
		if rel == "" {
			rel = "."
		}
		cc.runBounded(BoundedSpec{Name: "globals." + filepath.Base(pk), PkgDir: rel, File: file, Test: "TestVerifGlobalInvariants",
			Contract: "package-level invariants (//@ global) of " + pk + " hold on the initialised package", TimeoutS: 60, Table: true})
		os.RemoveAll(tmp)
	}
}
