package main

// Bounded stand-ins: contracts that are out of SMT reach are evaluated at run time on an exhaustively
// enumerated, explicitly bounded input space, by an in-package Go test injected with `go test -overlay`
// (nothing is written to /repo).  They are labelled bounded and never counted as proofs.

import (
	"bufio"
	"bytes"
	"context"
	"encoding/json"
	"fmt"
	"os"
	"os/exec"
	"path/filepath"
	"strconv"
	"strings"
	"time"
)

type BoundedSpec struct {
	Name     string // item name suffix
	PkgDir   string // package directory relative to the repo root, e.g. "trie"
	File     string // test source under /verif/bounded
	Test     string // test function name
	Contract string // what is evaluated
	TimeoutS int
	Table    bool // a closed evaluation without inputs (complete): reported as kind "table", not as bounded
}

// The injected test prints:
//
//	BOUNDED evaluations=<n> distinct=<m> exhaustive=<bool> bound=<quoted text>
//	BOUNDED-FAIL <one line description of the failing input and what was observed>
//	BOUNDED-KNOWN <id> <one line>      (a failure matching a known finding id)
func (cc *CheckCtx) runBounded(bs BoundedSpec) {
	t0 := time.Now()
	name := cc.Prop + "/bounded." + bs.Name
	tmp, err := os.MkdirTemp("", "govc-bounded-")
	if err != nil {
		cc.add(&Item{Name: name, Kind: "bounded", Bounded: true, Status: "unknown", Backend: "go test", Detail: err.Error()})
		return
	}
	defer os.RemoveAll(tmp)
	src := filepath.Join(cc.VerifDir, "bounded", bs.File)
	if filepath.IsAbs(bs.File) {
		src = bs.File
	}
	kind, isBounded, backend := "bounded", true, "go test (bounded)"
	if bs.Table {
		kind, isBounded, backend = "table", false, "go test (closed evaluation on the real package)"
		name = cc.Prop + "/table." + bs.Name
	}
	dst := filepath.Join(cc.Repo, bs.PkgDir, "zz_verif_bounded_test.go")
	ov := map[string]any{"Replace": map[string]string{dst: src}}
	ob, _ := json.Marshal(ov)
	ovPath := filepath.Join(tmp, "overlay.json")
	os.WriteFile(ovPath, ob, 0o644)
	to := bs.TimeoutS
	if to == 0 {
		to = 120
	}
	ctx, cancel := context.WithTimeout(context.Background(), time.Duration(to+30)*time.Second)
	defer cancel()
	cmd := exec.CommandContext(ctx, "go", "test", "-tags=verif", "-overlay", ovPath, "-vet=off", "-count=1", "-timeout", fmt.Sprintf("%ds", to), "-run", "^"+bs.Test+"$", "-v", "./"+bs.PkgDir)
	cmd.Dir = cc.Repo
	cmd.Env = append(os.Environ(), "GOFLAGS=-mod=mod", "GOPROXY=off", "VERIF_TIER="+cc.Tier)
	var out bytes.Buffer
	cmd.Stdout = &out
	cmd.Stderr = &out
	runErr := cmd.Run()
	secs := time.Since(t0).Seconds()
	var fails []string
	info := map[string]any{"contract": bs.Contract, "name": bs.Name, "test": bs.File + ":" + bs.Test}
	sawSummary := false
	// lines of any length (a scanner gives up on a long line and would hide the summary)
	rd := bufio.NewReaderSize(&out, 1<<16)
	var tail []string
	for {
		raw, rerr := rd.ReadString('\n')
		if raw == "" && rerr != nil {
			break
		}
		line := strings.TrimSpace(raw)
		if strings.HasPrefix(line, "{\"ts\"") {
			continue // interpreter log lines
		}
		if len(line) > 4000 {
			line = line[:4000] + " ...(cut)"
		}
		tail = append(tail, line)
		if len(tail) > 30 {
			tail = tail[1:]
		}
		switch {
		case strings.HasPrefix(line, "BOUNDED-FAIL "):
			fails = append(fails, strings.TrimPrefix(line, "BOUNDED-FAIL "))
		case strings.HasPrefix(line, "BOUNDED-KNOWN "):
			rest := strings.TrimPrefix(line, "BOUNDED-KNOWN ")
			id, desc := splitWord(rest)
			cc.add(&Item{Name: name + "." + id, Kind: "bounded", Bounded: true, Status: "failed", Backend: "go test (bounded)", Detail: desc, Reproduced: true, Model: desc})
		case strings.HasPrefix(line, "BOUNDED "):
			sawSummary = true
			for _, kv := range splitKV(strings.TrimPrefix(line, "BOUNDED ")) {
				switch kv[0] {
				case "evaluations", "distinct":
					n, _ := strconv.Atoi(kv[1])
					info[kv[0]] = n
				case "exhaustive":
					info[kv[0]] = kv[1] == "true"
				default:
					info[kv[0]] = kv[1]
				}
			}
		}
	}
	info["seconds"] = secs
	cc.Bounded = append(cc.Bounded, info)
	switch {
	case len(fails) > 0:
		for i, f := range fails {
			if i >= 5 {
				break
			}
			cc.add(&Item{Name: fmt.Sprintf("%s#%d", name, i+1), Kind: kind, Bounded: isBounded, Status: "failed", Backend: backend, Secs: secs, Detail: bs.Contract + ": " + f, Reproduced: true, Model: f})
		}
	case !sawSummary || runErr != nil:
		cc.add(&Item{Name: name, Kind: kind, Bounded: isBounded, Status: "unknown", Backend: backend, Secs: secs, Detail: "harness did not complete: " + strings.Join(tail, " | ")})
	default:
		pre := "BOUNDED (not a proof): "
		if bs.Table {
			pre = "closed evaluation: "
		}
		cc.add(&Item{Name: name, Kind: kind, Bounded: isBounded, Status: "proved", Backend: backend, Secs: secs,
			Detail: fmt.Sprintf("%s%s; bound: %v; evaluations: %v", pre, bs.Contract, info["bound"], info["evaluations"])})
	}
}

// splitKV parses key=value pairs where values may be double-quoted.
func splitKV(s string) [][2]string {
	var out [][2]string
	for len(s) > 0 {
		s = strings.TrimLeft(s, " ")
		i := strings.IndexByte(s, '=')
		if i < 0 {
			break
		}
		k := s[:i]
		s = s[i+1:]
		var v string
		if strings.HasPrefix(s, "\"") {
			j := 1
			for j < len(s) && (s[j] != '"' || s[j-1] == '\\') {
				j++
			}
			if uq, err := strconv.Unquote(s[:minInt(j+1, len(s))]); err == nil {
				v = uq
			} else {
				v = s[1:minInt(j, len(s))]
			}
			s = s[minInt(j+1, len(s)):]
		} else {
			j := strings.IndexByte(s, ' ')
			if j < 0 {
				j = len(s)
			}
			v = s[:j]
			s = s[j:]
		}
		out = append(out, [2]string{k, v})
	}
	return out
}

func minInt(a, b int) int {
	if a < b {
		return a
	}
	return b
}
