package main

// C02 (print then parse gives the same tree) and C03 (formatting is a deterministic fixpoint).
// Structural cores decided on SSA:
//   C02: the printer and the parser take operator precedence from one and the same table (ast.Precedences): it is the
//        only precedence table read in package parser, and nothing writes it after package initialisation - so the
//        printer's decision to parenthesise and the parser's decision to group cannot drift apart through a table edit.
//   C03: formatting is a function of the tree and the mode flags only: no function reachable from the PrettyPrint
//        methods reads a package-level variable that is written after package initialisation, ranges over a map, or
//        calls into time / math/rand / os (determinism "in any process and after any other inputs were parsed").
// The identities themselves (parse o print = id on trees, print o parse o print = print) are relations between two
// recursive algorithms over all programs; the parser is outside the verifier's subset: bounded stand-ins.

import (
	"fmt"
	"go/types"
	"sort"
	"strings"

	"golang.org/x/tools/go/ssa"
)

func init() {
	propExtras["C02"] = c02Extras
	propExtras["C03"] = c03Extras
}

// writersOfGlobalOutsideInit: functions other than package initialisers that store to (or into) global g.
func (p *Prog) writersOfGlobalOutsideInit(g *ssa.Global) []string {
	var out []string
	for _, f := range p.allFuncs() {
		if f.Name() == "init" || strings.HasPrefix(f.Name(), "init#") {
			continue
		}
		for _, b := range f.Blocks {
			for _, ins := range b.Instrs {
				switch x := ins.(type) {
				case *ssa.Store:
					if x.Addr == ssa.Value(g) {
						out = append(out, funcKey(f)+" at "+p.posOf(ins))
					}
				case *ssa.MapUpdate:
					if u, ok := x.Map.(*ssa.UnOp); ok && u.X == ssa.Value(g) {
						out = append(out, funcKey(f)+" at "+p.posOf(ins))
					}
				}
			}
		}
	}
	return out
}

func c02Extras(cc *CheckCtx) {
	p := cc.P
	var prec *ssa.Global
	for _, sp := range p.prog.AllPackages() {
		if sp.Pkg.Path() == "grol.io/grol/ast" {
			if g, ok := sp.Members["Precedences"].(*ssa.Global); ok {
				prec = g
			}
		}
	}
	if prec == nil {
		cc.audit("one-precedence-table", false, "ast.Precedences not found (renamed?)", "")
	} else {
		// every map[token.Type]ast.Priority read in package parser is ast.Precedences
		var others []string
		reads := 0
		for _, f := range p.allFuncs("parser", "ast") {
			for _, b := range f.Blocks {
				for _, ins := range b.Instrs {
					lk, ok := ins.(*ssa.Lookup)
					if !ok {
						continue
					}
					mt, isMap := lk.X.Type().Underlying().(*types.Map)
					if !isMap || !strings.HasSuffix(mt.Elem().String(), "ast.Priority") {
						continue
					}
					reads++
					if u, ok := lk.X.(*ssa.UnOp); !ok || u.X != ssa.Value(prec) {
						others = append(others, funcKey(f)+" at "+p.posOf(ins))
					}
				}
			}
		}
		cc.audit("one-precedence-table", len(others) == 0 && reads >= 3, fmt.Sprintf("all %d precedence lookups of the parser and the printer read ast.Precedences; other tables: %v", reads, others), "")
		ws := p.writersOfGlobalOutsideInit(prec)
		cc.audit("precedence-table-constant", len(ws) == 0, fmt.Sprintf("ast.Precedences is written only by package initialisation; other writers: %v", ws), "")
	}
	cc.runBounded(BoundedSpec{Name: "print-parse-roundtrip", PkgDir: "repl", File: "c02_format_test.go", Test: "TestVerifBoundedRoundTrip", TimeoutS: 300,
		Contract: "for every accepted text of the corpus, the normal and the compact output re-parse to a structurally identical program"})
	cc.Assume = append(cc.Assume,
		"C02: the identity parse(print(t)) = t is decided only on the bounded corpus (repository examples and tests, all ordered pairs of binary operators in three nestings, prefix/binary combinations, 35 statement shapes)",
		"C02: the parser's function-value dispatch is outside govc's subset")
}

func c03Extras(cc *CheckCtx) {
	p := cc.P
	// functions reachable from the PrettyPrint methods, DebugString and the PrintState methods
	var roots []*ssa.Function
	for _, f := range p.allFuncs("ast") {
		if f.Name() == "PrettyPrint" || f.Name() == "DebugString" || (f.Signature.Recv() != nil && strings.HasSuffix(f.Signature.Recv().Type().String(), "ast.PrintState")) {
			roots = append(roots, f)
		}
	}
	reach := p.reachableFrom(roots)
	var fns []*ssa.Function
	for f := range reach {
		fns = append(fns, f)
	}
	sort.Slice(fns, func(i, j int) bool { return funcKey(fns[i]) < funcKey(fns[j]) })
	var mutable, mapRanges, clocks []string
	globalsRead := map[*ssa.Global]bool{}
	for _, f := range fns {
		if !p.inRepo(f) {
			path := calleePkgPath(f)
			if path == "time" || path == "math/rand" || path == "math/rand/v2" || path == "os" || path == "crypto/rand" {
				clocks = append(clocks, funcKey(f))
			}
			continue
		}
		for _, b := range f.Blocks {
			for _, ins := range b.Instrs {
				switch x := ins.(type) {
				case *ssa.UnOp:
					if g, ok := x.X.(*ssa.Global); ok && strings.HasPrefix(g.Pkg.Pkg.Path(), "grol.io/grol") {
						globalsRead[g] = true
					}
				case *ssa.Range:
					if _, isMap := x.X.Type().Underlying().(*types.Map); isMap {
						mapRanges = append(mapRanges, funcKey(f)+" at "+p.posOf(ins))
					}
				}
			}
		}
	}
	var gs []*ssa.Global
	for g := range globalsRead {
		gs = append(gs, g)
	}
	sort.Slice(gs, func(i, j int) bool { return gs[i].String() < gs[j].String() })
	var names []string
	for _, g := range gs {
		names = append(names, g.Pkg.Pkg.Name()+"."+g.Name())
		if ws := p.writersOfGlobalOutsideInit(g); len(ws) > 0 {
			mutable = append(mutable, g.Pkg.Pkg.Name()+"."+g.Name()+" written by "+strings.Join(ws, ", "))
		}
	}
	cc.audit("printer-reads-no-mutable-global", len(mutable) == 0 && len(roots) > 10,
		fmt.Sprintf("the %d functions reachable from the %d printing entry points read %d package-level variables (%s), none written after initialisation; mutable ones: %v", len(fns), len(roots), len(gs), strings.Join(names, ", "), mutable), "")
	cc.audit("printer-ranges-over-no-map", len(mapRanges) == 0, fmt.Sprintf("no map iteration (whose order varies between runs) in the printer; found: %v", mapRanges), "")
	cc.audit("printer-calls-no-clock-or-random", len(clocks) == 0, fmt.Sprintf("no time / random / os function is reachable from the printer; found: %v", clocks), "")
	// the parser and the lexer keep no state between inputs: the only package-level variables they can read that are
	// written after initialisation are the token tables of package token (interning returns a token with the same
	// type and literal whatever the table holds: InternToken / Intern / LookupIdent contracts, C16)
	{
		var proots []*ssa.Function
		for _, f := range p.allFuncs("parser", "lexer") {
			if f.Parent() == nil && !strings.HasPrefix(f.Name(), "init") && !strings.HasPrefix(f.Name(), "lemma") {
				proots = append(proots, f)
			}
		}
		preach := p.reachableFrom(proots)
		var pf []*ssa.Function
		for f := range preach {
			if p.inRepo(f) {
				pf = append(pf, f)
			}
		}
		sort.Slice(pf, func(i, j int) bool { return funcKey(pf[i]) < funcKey(pf[j]) })
		seenG := map[*ssa.Global]bool{}
		var stateful, allowed []string
		for _, f := range pf {
			for _, b := range f.Blocks {
				for _, ins := range b.Instrs {
					for _, op := range ins.Operands(nil) {
						g, ok := (*op).(*ssa.Global)
						if !ok || seenG[g] || !strings.HasPrefix(g.Pkg.Pkg.Path(), "grol.io/grol") {
							continue
						}
						seenG[g] = true
						ws := p.writersOfGlobalOutsideInit(g)
						if len(ws) == 0 {
							continue
						}
						if g.Pkg.Pkg.Path() == "grol.io/grol/token" {
							allowed = append(allowed, "token."+g.Name())
							continue
						}
						stateful = append(stateful, g.Pkg.Pkg.Name()+"."+g.Name()+" written by "+strings.Join(ws, ", "))
					}
				}
			}
		}
		sort.Strings(allowed)
		sort.Strings(stateful)
		cc.audit("parser-keeps-no-state", len(stateful) == 0 && len(proots) > 20,
			fmt.Sprintf("the %d functions reachable from the lexer and the parser use no package-level variable that is written after initialisation, apart from the token tables (%s); stateful: %v", len(pf), strings.Join(allowed, ", "), stateful), "")
	}
	cc.runBounded(BoundedSpec{Name: "format-fixpoint", PkgDir: "repl", File: "c02_format_test.go", Test: "TestVerifBoundedFixpoint", TimeoutS: 300,
		Contract: "formatting the formatter's output returns it unchanged (both modes), two rounds in one process give the same bytes, normal-mode output ends with exactly one newline"})
	cc.Assume = append(cc.Assume,
		"C03: token literals are immutable strings (tokens are interned once); fmt / strings / strconv are deterministic",
		"C03: the fixpoint itself is decided only on the bounded corpus (same corpus as C02)",
		"C03: 'in any process and after any other inputs': the audits cover every package-level variable the printer, the parser and the lexer can reach; the token tables are excepted on the strength of the interning contracts (C16)")
}
