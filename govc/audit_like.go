package main

// Audit behind "dyncall <field> like <stand-in>": the stand-in's switch is exactly the table the program registers.
//   - the map held in <field> is assigned only fresh maps (make) and updated only by "register" functions that store
//     their own parameters under their own receiver;
//   - every call of a register function passes a constant key and a method value bound to the same receiver;
//   - the stand-in compares its key parameter with constants and calls, on its own receiver and with its own
//     remaining parameters, the method registered for that constant - same constants, same methods, nothing else.

import (
	"fmt"
	"go/constant"
	"go/token"
	"go/types"
	"sort"
	"strings"

	"golang.org/x/tools/go/ssa"
)

func (cc *CheckCtx) auditDynLike() {
	p := cc.P
	type pair struct{ pkg, fld, like string }
	seen := map[pair]bool{}
	var pairs []pair
	for _, k := range p.contracts.Order {
		c := p.contracts.ByKey[k]
		for _, dc := range c.DynCalls {
			if dc.Like == "" {
				continue
			}
			pr := pair{c.Pkg, dc.Field, dc.Like}
			if !seen[pr] {
				seen[pr] = true
				pairs = append(pairs, pr)
			}
		}
	}
	for _, pr := range pairs {
		name := "table." + pr.fld
		standin := p.byKey[pr.pkg+"."+pr.like]
		if standin == nil {
			cc.audit(name, false, "stand-in "+pr.like+" not found", "")
			continue
		}
		var problems []string
		isFld := func(addr ssa.Value) (recv ssa.Value, ok bool) {
			fa, isFA := addr.(*ssa.FieldAddr)
			if !isFA {
				return nil, false
			}
			st, _ := derefStruct(fa.X.Type())
			if st == nil || fieldName(st, fa.Field) != pr.fld {
				return nil, false
			}
			if n, isNamed := st.(*types.Named); !isNamed || n.Obj().Pkg() == nil || n.Obj().Pkg().Path() != pr.pkg {
				return nil, false
			}
			return fa.X, true
		}
		registers := map[*ssa.Function][2]int{} // register function -> (key parameter index, value parameter index)
		for _, f := range p.allFuncs() {
			for _, b := range f.Blocks {
				for _, ins := range b.Instrs {
					switch x := ins.(type) {
					case *ssa.Store:
						if _, ok := isFld(x.Addr); ok {
							if _, isMake := x.Val.(*ssa.MakeMap); !isMake {
								problems = append(problems, fmt.Sprintf("%s assigns %s something other than a fresh map at %s", f.Name(), pr.fld, p.posOf(x)))
							}
						}
					case *ssa.MapUpdate:
						u, isLoad := x.Map.(*ssa.UnOp)
						if !isLoad {
							continue
						}
						recv, ok := isFld(u.X)
						if !ok {
							continue
						}
						ki, vi := paramIndex(f, x.Key), paramIndex(f, x.Value)
						if ct, isCT := x.Value.(*ssa.ChangeType); isCT {
							vi = paramIndex(f, ct.X)
						}
						if len(f.Params) == 0 || recv != ssa.Value(f.Params[0]) || ki < 1 || vi < 1 {
							problems = append(problems, fmt.Sprintf("%s updates %s other than by storing its parameters under its receiver at %s", f.Name(), pr.fld, p.posOf(x)))
							continue
						}
						registers[f] = [2]int{ki, vi}
					}
				}
			}
		}
		table := map[string]string{} // constant key -> method
		for _, f := range p.allFuncs() {
			for _, b := range f.Blocks {
				for _, ins := range b.Instrs {
					ci, isCall := ins.(ssa.CallInstruction)
					if !isCall {
						continue
					}
					for _, op := range ins.Operands(nil) {
						// a register function used as a value could be called with anything
						if g, isF := (*op).(*ssa.Function); isF && op != &ci.Common().Value {
							if _, isReg := registers[g]; isReg && ci.Common().StaticCallee() != g {
								problems = append(problems, fmt.Sprintf("%s uses %s as a value at %s", f.Name(), g.Name(), p.posOf(ins)))
							}
						}
					}
					g := ci.Common().StaticCallee()
					idx, isReg := registers[g]
					if !isReg {
						continue
					}
					args := ci.Common().Args
					kc, isConst := args[idx[0]].(*ssa.Const)
					fv := args[idx[1]]
					if ct, isCT := fv.(*ssa.ChangeType); isCT {
						fv = ct.X
					}
					mc, isMC := fv.(*ssa.MakeClosure)
					if !isConst || kc.Value == nil || !isMC || len(mc.Bindings) != 1 || mc.Bindings[0] != args[0] || !strings.HasSuffix(mc.Fn.Name(), "$bound") {
						problems = append(problems, fmt.Sprintf("%s registers something other than (constant, method bound to the same receiver) at %s", f.Name(), p.posOf(ins)))
						continue
					}
					key := kc.Value.ExactString()
					m := strings.TrimSuffix(mc.Fn.Name(), "$bound")
					if old, dup := table[key]; dup && old != m {
						problems = append(problems, fmt.Sprintf("key %s registered twice (%s, %s)", key, old, m))
					}
					table[key] = m
				}
			}
		}
		// the stand-in's dispatch
		mirror := map[string]string{}
		if len(standin.Params) < 2 {
			problems = append(problems, "stand-in has no key parameter")
		} else {
			keyParam := standin.Params[1]
			for _, b := range standin.Blocks {
				for _, ins := range b.Instrs {
					switch x := ins.(type) {
					case *ssa.If:
						bo, isBO := x.Cond.(*ssa.BinOp)
						if !isBO || bo.Op != token.EQL || bo.X != ssa.Value(keyParam) {
							problems = append(problems, fmt.Sprintf("stand-in branches on something other than key == constant at %s", p.posOf(x)))
							continue
						}
						kc, isConst := bo.Y.(*ssa.Const)
						if !isConst || kc.Value == nil {
							problems = append(problems, fmt.Sprintf("stand-in compares its key with a non-constant at %s", p.posOf(x)))
							continue
						}
						var callee string
						for _, j := range b.Succs[0].Instrs {
							if c, isC := j.(*ssa.Call); isC {
								g := c.Call.StaticCallee()
								okArgs := g != nil && len(c.Call.Args) == len(standin.Params)-1 && c.Call.Args[0] == ssa.Value(standin.Params[0])
								for i := 1; okArgs && i < len(c.Call.Args); i++ {
									okArgs = c.Call.Args[i] == ssa.Value(standin.Params[i+1])
								}
								if !okArgs {
									problems = append(problems, fmt.Sprintf("stand-in calls something other than a method on its receiver with its own parameters at %s", p.posOf(c)))
								} else {
									callee = g.Name()
								}
								break
							}
						}
						if callee == "" {
							problems = append(problems, fmt.Sprintf("stand-in case %s calls nothing", kc.Value.ExactString()))
							continue
						}
						mirror[kc.Value.ExactString()] = callee
					case *ssa.Call:
						if !underIf(b) {
							problems = append(problems, fmt.Sprintf("stand-in calls outside a case at %s", p.posOf(x)))
						}
					}
				}
			}
		}
		for _, k := range sortedKeys(table) {
			if mirror[k] != table[k] {
				problems = append(problems, fmt.Sprintf("key %s is registered with %s, the stand-in has %q", constName(k), table[k], mirror[k]))
			}
		}
		for _, k := range sortedKeys(mirror) {
			if _, ok := table[k]; !ok {
				problems = append(problems, fmt.Sprintf("the stand-in dispatches key %s to %s, which is not registered", constName(k), mirror[k]))
			}
		}
		if len(registers) == 0 || len(table) == 0 {
			problems = append(problems, "no registration found")
		}
		sort.Strings(problems)
		detail := fmt.Sprintf("the parse table %s (%d keys) is written only by its register function from New, with constant keys and methods bound to the same parser, and the stand-in %s dispatches exactly that table", pr.fld, len(table), pr.like)
		if len(problems) > 0 {
			detail += ": " + strings.Join(problems, "; ")
		}
		cc.audit(name, len(problems) == 0, detail, p.fset.Position(standin.Pos()).String())
	}
}

func constName(k string) string { return k }

// underIf: the block is the true successor of a key comparison (a case body).
func underIf(b *ssa.BasicBlock) bool {
	for _, pr := range b.Preds {
		if len(pr.Instrs) == 0 {
			continue
		}
		if _, isIf := pr.Instrs[len(pr.Instrs)-1].(*ssa.If); isIf && pr.Succs[0] == b {
			return true
		}
	}
	return false
}

var _ = constant.MakeInt64
