package main

import (
	"flag"
	"fmt"
	"os"
	"sort"
	"strings"
	"time"
)

func main() {
	if len(os.Args) < 2 {
		fmt.Fprintln(os.Stderr, "usage: govc check|fn|list ...")
		os.Exit(2)
	}
	switch os.Args[1] {
	case "fn":
		cmdFn(os.Args[2:])
	case "check":
		cmdCheck(os.Args[2:])
	case "dyn":
		cmdDyn(os.Args[2:])
	case "exts":
		cmdExts()
	case "sweep":
		cmdSweep(os.Args[2:])
	case "astwrites":
		cmdAstWrites()
	case "writers":
		if len(os.Args) == 2 {
			cmdWriterKeys()
			return
		}
		cmdWriters(os.Args[2:])
	default:
		fmt.Fprintln(os.Stderr, "unknown subcommand", os.Args[1])
		os.Exit(2)
	}
}

// govc fn -key <funcKey> [-dump name]: verify one function, print obligations.
func cmdFn(args []string) {
	fs := flag.NewFlagSet("fn", flag.ExitOnError)
	repo := fs.String("repo", "/repo", "repository")
	cdir := fs.String("contracts", "/verif/contracts", "assumed contracts dir")
	key := fs.String("key", "", "function key substring")
	dump := fs.String("dump", "", "dump SMT script of obligation whose name contains this")
	timeout := fs.Int("timeout", 10, "solver timeout (s)")
	prop := fs.String("prop", "", "verify as when checking this property (clause scoping)")
	fs.Parse(args)
	t0 := time.Now()
	p, err := loadProg(*repo, *cdir)
	if err != nil {
		fmt.Fprintln(os.Stderr, "load:", err)
		os.Exit(2)
	}
	p.curProp = *prop
	fmt.Fprintf(os.Stderr, "loaded in %.1fs, %d contracts\n", time.Since(t0).Seconds(), len(p.contracts.ByKey))
	var results []*FnResult
	for _, k := range p.contracts.Order {
		if !strings.Contains(k, *key) {
			continue
		}
		c := p.contracts.ByKey[k]
		if c.Assumed {
			continue
		}
		f := p.byKey[k]
		if f == nil {
			fmt.Printf("NO SUCH FUNCTION %s\n", k)
			continue
		}
		r := p.verifyFunction(f, c)
		results = append(results, r)
	}
	solveAll(results, *timeout, 16)
	bad := 0
	for _, r := range results {
		fmt.Printf("== %s: %d obligations\n", r.Key, len(r.Q.obligs))
		if r.Unsupported != "" {
			fmt.Printf("   UNSUPPORTED: %s\n", r.Unsupported)
			bad++
		}
		for _, n := range r.Q.notes {
			fmt.Printf("   note: %s\n", n)
		}
		for _, o := range r.Q.obligs {
			fmt.Printf("   %-8s %-60s %s %.2fs  %s\n", o.Status, o.Name, o.Solver, o.Secs, o.Comment)
			if o.Status != "proved" {
				bad++
				fmt.Printf("        at %s:%d\n", o.Pos.Filename, o.Pos.Line)
				if o.Model != "" {
					fmt.Println(indent(firstLines(filterModel(o.Model, r.Q.modelVars), 40), "        "))
				}
			}
			if *dump != "" && strings.Contains(o.Name, *dump) {
				os.WriteFile("/tmp/govc_dump.smt2", []byte(obligScript(r.Q, o, true, "define")), 0o644)
				fmt.Println("        dumped to /tmp/govc_dump.smt2")
			}
		}
	}
	if bad > 0 {
		os.Exit(1)
	}
}

func indent(s, pre string) string {
	return pre + strings.ReplaceAll(s, "\n", "\n"+pre)
}

// filterModel keeps model entries for interesting symbols (parameters, loop variables).
func filterModel(model string, vars []string) string {
	lines := strings.Split(model, "\n")
	var out []string
	keep := false
	depth := 0
	for _, l := range lines {
		t := strings.TrimSpace(l)
		if strings.HasPrefix(t, "(define-fun ") {
			name := strings.Fields(t[len("(define-fun "):])[0]
			keep = strings.HasPrefix(name, "p_") || strings.Contains(name, "_loop") || strings.HasPrefix(name, "h_") && strings.HasSuffix(name, "_g1")
			depth = 0
		}
		if keep {
			out = append(out, l)
		}
		depth += strings.Count(l, "(") - strings.Count(l, ")")
		_ = depth
	}
	sort.Strings(nil)
	if len(out) == 0 {
		return firstLines(model, 30)
	}
	return strings.Join(out, "\n")
}
