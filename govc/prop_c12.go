package main

func init() {
	propExtras["C12"] = func(cc *CheckCtx) {
		cc.runBounded(BoundedSpec{Name: "cmp-laws", PkgDir: "object", File: "c12_cmp_test.go", Test: "TestVerifBoundedCmpLaws",
			Contract: "order laws of object.Cmp / object.Equals (range, reflexive, antisymmetric, transitive, Equals an equivalence implying Cmp==0, no panic) including containers"})
		cc.Assume = append(cc.Assume,
			"C12: cmp.Compare[float64|int64|string] are given their documented semantics (NaN lowest and equal to itself; strings an uninterpreted total order compatible with content equality)",
			"C12: the laws are proved for scalar operands (INTEGER, FLOAT, BOOLEAN, NIL, STRING, ERROR); for containers only the bounded evaluation applies",
			"C12: operands of kind QUOTE, MACRO, RETURN, REFERENCE, REGISTER are outside the scalar lemmas (Cmp panics on them: see C07)")
	}
}
