package main

import (
	"fmt"
	"go/token"
	"go/types"
	"sort"

	"golang.org/x/tools/go/ssa"
)

func init() {
	propExtras["C12"] = func(cc *CheckCtx) {
		cc.runBounded(BoundedSpec{Name: "cmp-laws", PkgDir: "object", File: "c12_cmp_test.go", Test: "TestVerifBoundedCmpLaws",
			Contract: "order laws of object.Cmp / object.Equals (range, reflexive, antisymmetric, transitive, Equals an equivalence implying Cmp==0, no panic) including containers"})
		// comparing never panics: Go's == on two interface values panics when their common dynamic type holds a slice, map
		// or function (object.Function, object.Error, large arrays, maps); Cmp / Equals and everything they call in
		// package object must not use it on object values
		{
			p := cc.P
			var roots []*ssa.Function
			for _, f := range p.allFuncs("object") {
				if f.Parent() == nil && (f.Name() == "Cmp" || f.Name() == "Equals" || f.Name() == "CompareKeys") && f.Signature.Recv() == nil {
					roots = append(roots, f)
				}
			}
			var bad []string
			n := 0
			for f := range p.reachableFrom(roots) {
				if !p.inRepo(f) || f.Pkg == nil || f.Pkg.Pkg.Path() != "grol.io/grol/object" {
					continue
				}
				n++
				for _, b := range f.Blocks {
					for _, ins := range b.Instrs {
						bo, ok := ins.(*ssa.BinOp)
						if !ok || (bo.Op != token.EQL && bo.Op != token.NEQ) {
							continue
						}
						_, xi := bo.X.Type().Underlying().(*types.Interface)
						_, yi := bo.Y.Type().Underlying().(*types.Interface)
						_, xc := bo.X.(*ssa.Const)
						_, yc := bo.Y.(*ssa.Const)
						if xi && yi && !xc && !yc {
							// error values compared with == are not object values
							if bo.X.Type().String() == "error" {
								continue
							}
							// one side is a concrete comparable value boxed for the comparison (v == r with r a Reference):
							// the dynamic types are equal only when both are that comparable type
							safe := false
							for _, side := range []ssa.Value{bo.X, bo.Y} {
								if mi, isMI := side.(*ssa.MakeInterface); isMI && types.Comparable(mi.X.Type()) {
									safe = true
								}
							}
							if safe {
								continue
							}
							bad = append(bad, f.Name()+" at "+p.posOf(ins))
						}
					}
				}
			}
			sort.Strings(bad)
			cc.audit("no-interface-equality", len(bad) == 0 && len(roots) >= 2, fmt.Sprintf("none of the %d functions of package object reachable from Cmp / Equals applies Go's == or != to two interface values (which panics on functions, errors, large arrays and maps of equal dynamic type); found: %v", n, bad), "")
		}
		cc.Assume = append(cc.Assume,
			"C12: cmp.Compare[float64|int64|string] are given their documented semantics (NaN lowest and equal to itself; strings an uninterpreted total order compatible with content equality)",
			"C12: the laws are proved for scalar operands (INTEGER, FLOAT, BOOLEAN, NIL, STRING, ERROR); for containers only the bounded evaluation applies",
			"C12: operands of kind QUOTE, MACRO, RETURN, REFERENCE, REGISTER are outside the scalar lemmas (Cmp panics on them: see C07)")
	}
}
