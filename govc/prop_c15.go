package main

// C15: line-at-a-time input is equivalent to whole-file input.
// Deductive / structural part (lexer): the two modes differ only in the end marker.  Decided as a non-interference
// argument on SSA: the field Lexer.lineMode is read by exactly one function (EOLEOF, whose contract is proved), it is
// written only by the constructor NewLineMode on a fresh object, and EOLEOF's result never flows anywhere but into
// NextToken's return value; NextToken's C16 contract already pins an end token to EOLEOF().  Hence every other lexer
// function, and every non-end token, is the same function of (input, position) in both modes.
// The parser (prefix/infix function tables, outside govc's subset) and the session-level statement are covered by a
// bounded stand-in.

import (
	"fmt"
	"go/types"

	"golang.org/x/tools/go/ssa"
)

func init() { propExtras["C15"] = c15Extras }

func c15Extras(cc *CheckCtx) {
	p := cc.P
	all := p.allFuncs()
	isLineMode := func(fa *ssa.FieldAddr) bool {
		st, _ := derefStruct(fa.X.Type())
		n, ok := st.(*types.Named)
		return ok && n.Obj().Name() == "Lexer" && n.Obj().Pkg() != nil && n.Obj().Pkg().Path() == "grol.io/grol/lexer" && fieldName(st, fa.Field) == "lineMode"
	}
	var readers, writers []string
	nReads, nWrites := 0, 0
	var eoleof *ssa.Function
	for _, f := range all {
		if funcKey(f) == "grol.io/grol/lexer.(*Lexer).EOLEOF" {
			eoleof = f
		}
		for _, b := range f.Blocks {
			for _, ins := range b.Instrs {
				switch x := ins.(type) {
				case *ssa.UnOp:
					if fa, ok := x.X.(*ssa.FieldAddr); ok && isLineMode(fa) {
						nReads++
						if funcKey(f) != "grol.io/grol/lexer.(*Lexer).EOLEOF" {
							readers = append(readers, funcKey(f)+" at "+p.posOf(ins))
						}
					}
				case *ssa.Store:
					if fa, ok := x.Addr.(*ssa.FieldAddr); ok && isLineMode(fa) {
						nWrites++
						_, fresh := fa.X.(*ssa.Alloc)
						if funcKey(f) != "grol.io/grol/lexer.NewLineMode" || !fresh {
							writers = append(writers, funcKey(f)+" at "+p.posOf(ins))
						}
					}
				case *ssa.Field:
					// a Lexer copied by value and its field read
					if n, ok := x.X.Type().(*types.Named); ok && n.Obj().Name() == "Lexer" && fieldName(x.X.Type(), x.Field) == "lineMode" {
						readers = append(readers, funcKey(f)+" at "+p.posOf(ins))
					}
				}
			}
		}
	}
	cc.audit("linemode-read-only-by-EOLEOF", len(readers) == 0 && nReads > 0,
		fmt.Sprintf("Lexer.lineMode is read only inside (*Lexer).EOLEOF (%d read(s)); other readers: %v", nReads, readers), "")
	cc.audit("linemode-written-only-by-constructor", len(writers) == 0,
		fmt.Sprintf("Lexer.lineMode is stored only by NewLineMode into the object it allocates (%d store(s)); other writers: %v", nWrites, writers), "")
	if eoleof == nil {
		cc.audit("EOLEOF-result-only-returned", false, "(*Lexer).EOLEOF not found (renamed?)", "")
	} else {
		ok := true
		where := ""
		n := 0
		for _, ins := range p.refSites(all, eoleof) {
			n++
			where = p.posOf(ins)
			call, isCall := ins.(*ssa.Call)
			if !isCall || funcKey(ins.Parent()) != "grol.io/grol/lexer.(*Lexer).NextToken" || call.Referrers() == nil {
				ok = false
				continue
			}
			for _, r := range *call.Referrers() {
				switch r.(type) {
				case *ssa.Return, *ssa.DebugRef:
				default:
					ok = false
				}
			}
		}
		cc.audit("EOLEOF-result-only-returned", ok && n > 0, fmt.Sprintf("every use of EOLEOF is a call in NextToken whose result is returned as the token (%d call(s))", n), where)
	}
	cc.runBounded(BoundedSpec{Name: "line-vs-file", PkgDir: "repl", File: "c15_linemode_test.go", Test: "TestVerifBoundedLineMode", TimeoutS: 300,
		Contract: "complete programs parse to the same tree in both modes; prefixes inside an unclosed construct or after a binary operator ask for more input without error; feeding statements one at a time gives the same output and globals"})
	cc.Assume = append(cc.Assume,
		"C15: the parser's use of the end marker (EOL vs EOF) is outside the deductive part: function-value dispatch tables are outside govc's subset; bounded stand-in only",
		"C15: reflection / unsafe access to Lexer.lineMode does not occur (the read audit is on ordinary field accesses)")
}
