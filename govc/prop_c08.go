package main

func init() {
	propExtras["C08"] = func(cc *CheckCtx) {
		cc.runBounded(BoundedSpec{Name: "frontend-total", PkgDir: "parser", File: "c08_parser_test.go", Test: "TestVerifBoundedFrontEndTotal", TimeoutS: 300,
			Contract: "ParseProgram/PrettyPrint totality: no panic; errors, continuation or a printable tree, in file and line mode"})
		cc.Assume = append(cc.Assume,
			"C08: the lexer part (all of lexer/lexer.go: bounds, termination, no panic, for every byte string) and parser.ErrorLine are proved; the recursive-descent parser and the printer are covered only by the bounded evaluation",
			"C08: stack depth of the recursive-descent parser on deeply nested input is not decided (see C09)")
	}
}
