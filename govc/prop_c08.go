package main

func init() {
	propExtras["C08"] = func(cc *CheckCtx) {
		cc.runBounded(BoundedSpec{Name: "frontend-total", PkgDir: "parser", File: "c08_parser_test.go", Test: "TestVerifBoundedFrontEndTotal", TimeoutS: 900,
			Contract: "ParseProgram/PrettyPrint totality: no panic; errors, continuation or a printable tree, in file and line mode"})
		cc.auditDynLike()
		cc.Assume = append(cc.Assume,
			"C08: proved for every input: the lexer (all of lexer/lexer.go: bounds, termination, no panic) and the parser (every function of parser/parser.go: no nil dereference, index, nil-map, nil-function or type-assertion panic, the explicit panic in parseComment unreachable, under the parser invariant wfP established by New); the printer (ast PrettyPrint) is covered only by the bounded evaluation",
			"C08: termination of the recursive-descent parser is not proved (each recursion consumes input or ends, argued informally); stack depth on deeply nested input is not decided (see C09)",
			"C08: calls through the three parse tables are verified as calls of stand-ins that dispatch the same table (audit.table.*); the token tables invariant (token.tablesOK, token.byTypeOK) is assumed to be established by token.Init at package initialisation",
			"C08: every AST node handed to okParamList carries a token (assumed contract of ast.Node.Value); New is given a lexer built by lexer.New/NewBytes/NewLineMode (lexer fields are unexported, every lexer method preserves wf)")
	}
}
