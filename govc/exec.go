package main

// Symbolic execution of go/ssa function bodies into guarded SMT definitions (passive form).

import (
	"fmt"
	"go/constant"
	"go/token"
	"go/types"
	"math/big"
	"os"
	"sort"
	"strings"

	"golang.org/x/tools/go/ssa"
)

type locKind int

const (
	lkObj       locKind = iota // whole struct object addressed by ref
	lkField                    // direct field of a struct object: heap key F:T.i [base]
	lkCell                     // non-struct cell addressed by ref: heap key C:sort [base]
	lkSliceElem                // heap key M:sort [base][idx]
	lkArrElem                  // element idx of array value stored at parent
	lkSub                      // field of struct value stored at parent
	lkGlobal                   // heap key G:pkg.name
	lkArray                    // a whole array resident in memory: heap key M:elemsort [base] (base: its own ref, or arrBase(obj, field))
)

// validBlock: b names a memory block that exists when the allocation counter is alloc: a slice/array allocated
// earlier (0 <= b < alloc; 0 = nil) or the array field of an object allocated earlier.
func validBlock(b, alloc Term) Term {
	return and(lt(b, alloc), lt(app(sInt, "-", app(sInt, "*", tInt(64), alloc)), b))
}

// arrBase: the memory block of the array-typed field #field of object ref (negative: never an allocated ref).
func arrBase(ref Term, field int) Term {
	return sub(tInt(int64(-(field + 1))), app(sInt, "*", ref, tInt(64)))
}

type Loc struct {
	kind   locKind
	key    string
	base   Term
	idx    Term
	field  int
	parent *Loc
	typ    types.Type // type of the value stored here
	root   ssa.Value  // pointer the location is derived from (for write summaries)
}

type retInfo struct {
	reach Term
	vals  []Term
	heap  *Heap
	pos   token.Position
}

type loopState struct {
	hdr     *ssa.BasicBlock
	phis    map[*ssa.Phi]Term
	heap    *Heap // heap at header after havoc
	measure *Term
	ordinal int
	vars    map[string]SV // names visible to loop clauses at header
}

type Exec struct {
	q          *Q
	P          *Prog
	fn         *ssa.Function
	depth      int
	stack      []*ssa.Function
	vals       map[ssa.Value]Term
	tuples     map[ssa.Value][]Term
	locs       map[ssa.Value]*Loc
	reach      map[*ssa.BasicBlock]Term
	endHeap    map[*ssa.BasicBlock]*Heap
	entryHeap  *Heap
	entryReach Term
	params     []Term
	freeVars   []Term
	rets       []retInfo
	contract   *Contract
	li         *LoopInfo
	lstate     map[*ssa.BasicBlock]*loopState
	prefix     string
	counters   map[string]int
	top        bool
	closures   map[ssa.Value]*ssa.MakeClosure
	panicked   []retInfo // explicit panics / exceptional exits (reach, heap)
	skipSafety bool
	skipAlloc  bool
	witness    map[string]SV
	defers     []deferred
	privCache  map[ssa.Value]privInfo
	inExc      bool // processing exceptional exits: do not record new ones
	strIters   []*ssa.Range
	root       *Exec
	parentExec *Exec
	excExits   []excExit // exceptional exits of this activation (recorded on the outermost Exec)
	pendExc    []Term    // conditions under which the instruction being executed panics
}

// excExit: a state in which the activation under verification may be left by a panic: the heap at a program point
// (a run-time check or explicit panic fails there), or the heap a callee leaves behind when it panics.
type excExit struct {
	reach  Term
	heap   *Heap
	defers []deferred
	block  *ssa.BasicBlock
	what   string
	pos    token.Position
}

// guardsAllocs: allocation-size obligations (C09) belong to the functions tagged C09 (the operators that grow
// strings and containers), not to every function that happens to be verified as somebody's callee.
func (ex *Exec) guardsAllocs() bool {
	o := ex.outer()
	return o.contract != nil && hasProp(o.contract.Props, "C09")
}

// outer returns the Exec of the function under verification (inlined callees and spec contexts hang below it).
func (ex *Exec) outer() *Exec {
	e := ex
	for e.parentExec != nil {
		e = e.parentExec
	}
	return e
}

func (ex *Exec) wantsExc() bool {
	o := ex.outer()
	return o.contract != nil && len(o.contract.OnPanic) > 0 && ex.q.pureDepth == 0 && !o.inExc
}

// recordExit notes that execution may leave the function under verification by a panic in heap h.
func (ex *Exec) recordExit(reach Term, h *Heap, at ssa.Instruction, what string) {
	if !ex.wantsExc() {
		return
	}
	o := ex.outer()
	var b *ssa.BasicBlock
	pos := token.Position{}
	if at != nil {
		pos = ex.pos(at)
		if at.Parent() == o.fn {
			b = at.Block()
		}
	}
	o.excExits = append(o.excExits, excExit{reach: reach, heap: h.clone(), defers: append([]deferred(nil), o.defers...), block: b, what: what, pos: pos})
}

type unsupportedErr struct{ msg string }

func unsupported(format string, a ...any) {
	panic(unsupportedErr{fmt.Sprintf(format, a...)})
}

func (ex *Exec) pos(i ssa.Instruction) token.Position {
	p := i.Pos()
	if !p.IsValid() {
		// search nearby
		b := i.Block()
		for _, j := range b.Instrs {
			if j.Pos().IsValid() {
				p = j.Pos()
				break
			}
		}
	}
	return ex.P.fset.Position(p)
}

func (ex *Exec) obName(kind string) string {
	ex.counters[kind]++
	return fmt.Sprintf("%s/%s%s#%d", ex.q.fnName, ex.prefix, kind, ex.counters[kind])
}

func (ex *Exec) safety(kind string, guard, goal Term, at ssa.Instruction, comment string) {
	// execution continues past this point only if the run-time check passed
	defer func() {
		if ex.q.pureDepth == 0 {
			ex.q.assume(implies(guard, goal))
		}
	}()
	if ex.wantsExc() {
		ex.pendExc = append(ex.pendExc, and(guard, not(goal)))
	}
	if ex.skipSafety {
		return
	}
	if kind == "safe.nil" {
		// the same pointer checked under the same path condition need not be checked twice
		k := goal.S + "|" + guard.S
		if ex.q.nilChecked[k] {
			return
		}
		ex.q.nilChecked[k] = true
	}
	name := ex.obName(kind)
	ex.q.oblige(name, kind, guard, goal, ex.pos(at), comment)
}

// ---------- values ----------

func (ex *Exec) zero(t types.Type) Term {
	so := ex.q.so
	switch u := t.Underlying().(type) {
	case *types.Basic:
		if s := so.sortOf(t); isBV(s) {
			return bvLit("0", bvWidthOfSort(s))
		}
		switch so.sortOf(t) {
		case sBool:
			return tFalse
		case sInt:
			return tInt(0)
		case sStr:
			z := Term{"(mk_str ((as const (Array Int Int)) 0) 0 0)", sStr}
			ex.q.litOf[z.S] = ""
			return z
		case sF64:
			return Term{"(_ +zero 11 53)", sF64}
		case sF32:
			return Term{"(_ +zero 8 24)", sF32}
		}
	case *types.Pointer, *types.Map, *types.Chan, *types.Signature:
		return tInt(0)
	case *types.Slice:
		return mkSlice(tInt(0), tInt(0), tInt(0), tInt(0))
	case *types.Interface:
		return mkIface(tInt(0), tInt(0))
	case *types.Array:
		s := so.sortOf(t)
		return Term{fmt.Sprintf("((as const %s) %s)", s, ex.zero(u.Elem()).S), s}
	case *types.Struct:
		s := so.sortOf(t)
		var fs []Term
		for i := 0; i < u.NumFields(); i++ {
			fs = append(fs, ex.zero(u.Field(i).Type()))
		}
		return so.mkStruct(s, fs)
	}
	unsupported("zero value of %s", t)
	return Term{}
}

func (ex *Exec) constTerm(c *ssa.Const) Term {
	t := c.Type()
	if c.Value == nil {
		return ex.zero(t)
	}
	if s := ex.q.so.sortOf(t); isBV(s) {
		v := constant.ToInt(c.Value)
		if v.Kind() == constant.Int {
			return bvLit(v.ExactString(), bvWidthOfSort(s))
		}
	}
	switch ex.q.so.sortOf(t) {
	case sBool:
		if constant.BoolVal(c.Value) {
			return tTrue
		}
		return tFalse
	case sInt:
		v := constant.ToInt(c.Value)
		if v.Kind() == constant.Int {
			return tIntS(v.ExactString())
		}
	case sStr:
		return ex.q.strLit(constant.StringVal(c.Value))
	case sF64:
		f, _ := constant.Float64Val(c.Value)
		return fpConst(f)
	}
	unsupported("constant %s of type %s", c, t)
	return Term{}
}

func fpConst(f float64) Term {
	bf := new(big.Float).SetFloat64(f)
	_ = bf
	bits := fmt.Sprintf("%064b", float64bits(f))
	return Term{fmt.Sprintf("(fp #b%s #b%s #b%s)", bits[0:1], bits[1:12], bits[12:]), sF64}
}

func (ex *Exec) val(v ssa.Value) Term {
	if t, ok := ex.vals[v]; ok {
		return t
	}
	switch x := v.(type) {
	case *ssa.Const:
		return ex.constTerm(x)
	case *ssa.Global:
		// address of a global: use loc; as a value it is a distinct ref
		return ex.P.globalRef(x)
	case *ssa.Function:
		return ex.P.funcRef(ex.q, x)
	case *ssa.Builtin:
		unsupported("builtin %s as value", x.Name())
	}
	if _, isLoc := ex.locs[v]; isLoc {
		unsupported("interior pointer %s used as a value in %s", v.Name(), ex.fn.Name())
	}
	unsupported("value %s (%T) not yet defined in %s", v.Name(), v, ex.fn.Name())
	return Term{}
}

// ival: mathematical (Int-sorted) view of an integer-typed SSA value.
func (ex *Exec) ival(v ssa.Value) Term {
	t := ex.val(v)
	if isBV(t.Sort) {
		return ex.q.def("i_"+v.Name(), bvToInt(t, isSignedInt(v.Type())))
	}
	return t
}

// asVal: an Int-sorted term as a value of integer type t (bit-vector in bv mode).
func (ex *Exec) asVal(it Term, t types.Type) Term {
	if ex.q.so.bv && ex.q.so.sortOf(t) != sInt && it.Sort == sInt {
		return intToBV(it, intWidth(t))
	}
	return it
}

func (ex *Exec) intLit(n int64, t types.Type) Term {
	if ex.q.so.bv {
		if s := ex.q.so.sortOf(t); isBV(s) {
			return bvLit(fmt.Sprint(n), bvWidthOfSort(s))
		}
	}
	return tInt(n)
}

func (ex *Exec) setVal(v ssa.Value, t Term) {
	ex.vals[v] = ex.q.def(ex.fn.Name()+"_"+v.Name(), t)
}

// havocVal returns an unconstrained value of Go type t (with range facts).
func (ex *Exec) havocVal(hint string, t types.Type, guard Term) Term {
	if ex.q.pureDepth > 0 {
		unsupported("havoc in pure context (%s)", hint)
	}
	v := ex.q.fresh(hint, ex.q.so.sortOf(t))
	ex.typeFacts(v, t)
	return v
}

// typeFacts asserts well-typedness facts that hold for every Go value of type t.
func (ex *Exec) typeFacts(v Term, t types.Type) {
	if ex.q.pureDepth > 0 {
		return
	}
	switch u := t.Underlying().(type) {
	case *types.Basic:
		if u.Info()&types.IsInteger != 0 && v.Sort == sInt {
			ex.q.assume(rangeFact(v, t))
		}
		if u.Info()&types.IsString != 0 {
			ex.q.assume(and(le(tInt(0), strLen(v)), le(tInt(0), strOff(v)), le(strLen(v), tIntS(maxLen))))
		}
	case *types.Slice:
		ex.q.assume(and(le(tInt(0), slOff(v)), le(tInt(0), slLen(v)), le(slLen(v), slCap(v)), le(slCap(v), tIntS(maxLen))))
	case *types.Pointer, *types.Map:
		ex.q.assume(le(tInt(0), v))
	case *types.Struct:
		for i := 0; i < u.NumFields(); i++ {
			switch u.Field(i).Type().Underlying().(type) {
			case *types.Basic, *types.Slice, *types.Struct:
				ex.typeFacts(ex.q.so.structField(v, u, i), u.Field(i).Type())
			}
		}
	case *types.Interface:
		// the dynamic type of a non-nil value of a repo-declared interface type is one of its implementers
		if n, ok := t.(*types.Named); ok && n.Obj().Pkg() != nil && strings.HasPrefix(n.Obj().Pkg().Path(), "grol.io/grol") {
			impls := ex.P.implementers(t)
			if len(impls) > 0 && len(impls) <= 64 {
				cs := []Term{eq(ifTag(v), tInt(0))}
				for _, it := range impls {
					cs = append(cs, eq(ifTag(v), tInt(int64(ex.q.so.tag(it)))))
				}
				ex.q.assume(or(cs...))
			}
		}
	}
}

// maxAllocElems: make() with a larger capacity is treated as a run-time failure (Go panics with
// "cap out of range" or dies with out-of-memory well before this).
const maxAllocElems = "140737488355328"

// maxLen: stated assumption — no string/slice is longer than 2^46 bytes.
const maxLen = "70368744177664"

// ---------- locations ----------

func fieldKey(st types.Type, i int) string {
	u := st.Underlying().(*types.Struct)
	name := st.String()
	if _, ok := st.(*types.Named); !ok {
		name = "anon" + sanitize(u.String())
	}
	return fmt.Sprintf("F:%s.%s", name, u.Field(i).Name())
}

func (ex *Exec) regKey(key, sort string) string {
	if old, ok := ex.q.so.keySort[key]; ok && old != sort {
		panic(fmt.Sprintf("heap key %s sort clash %s vs %s", key, old, sort))
	}
	ex.q.so.keySort[key] = sort
	return key
}

func (ex *Exec) fieldLoc(base Term, st types.Type, i int, root ssa.Value) *Loc {
	u := st.Underlying().(*types.Struct)
	ft := u.Field(i).Type()
	if at, ok := ft.Underlying().(*types.Array); ok {
		return &Loc{kind: lkArray, key: ex.memKey(at.Elem()), base: arrBase(base, i), typ: ft, root: root, field: i}
	}
	key := ex.regKey(fieldKey(st, i), arrSort(sInt, ex.q.so.sortOf(ft)))
	return &Loc{kind: lkField, key: key, base: base, typ: ft, root: root}
}

func (ex *Exec) locOf(v ssa.Value) *Loc {
	if l, ok := ex.locs[v]; ok {
		return l
	}
	if g, ok := v.(*ssa.Global); ok {
		t := g.Type().(*types.Pointer).Elem()
		key := ex.regKey("G:"+g.Pkg.Pkg.Path()+"."+g.Name(), ex.q.so.sortOf(t))
		return &Loc{kind: lkGlobal, key: key, typ: t, root: v}
	}
	pt, ok := v.Type().Underlying().(*types.Pointer)
	if !ok {
		unsupported("locOf non-pointer %s", v.Type())
	}
	ref := ex.val(v)
	if _, isStruct := pt.Elem().Underlying().(*types.Struct); isStruct {
		return &Loc{kind: lkObj, base: ref, typ: pt.Elem(), root: v}
	}
	if at, ok := pt.Elem().Underlying().(*types.Array); ok {
		return &Loc{kind: lkArray, key: ex.memKey(at.Elem()), base: ref, typ: pt.Elem(), root: v, field: -1}
	}
	s := ex.q.so.sortOf(pt.Elem())
	key := ex.regKey("C:"+s, arrSort(sInt, s))
	return &Loc{kind: lkCell, key: key, base: ref, typ: pt.Elem(), root: v}
}

func (ex *Exec) load(l *Loc, h *Heap) Term {
	q := ex.q
	switch l.kind {
	case lkObj:
		st := l.typ.Underlying().(*types.Struct)
		var fs []Term
		for i := 0; i < st.NumFields(); i++ {
			fs = append(fs, ex.load(ex.fieldLoc(l.base, l.typ, i, l.root), h))
		}
		return q.so.mkStruct(q.so.sortOf(l.typ), fs)
	case lkField, lkCell, lkArray:
		return sel(q.heapGet(h, l.key), l.base)
	case lkGlobal:
		return q.heapGet(h, l.key)
	case lkSliceElem:
		return sel(sel(q.heapGet(h, l.key), l.base), l.idx)
	case lkArrElem:
		return sel(ex.load(l.parent, h), l.idx)
	case lkSub:
		pv := ex.load(l.parent, h)
		return q.so.structField(pv, l.parent.typ.Underlying().(*types.Struct), l.field)
	}
	panic("load: bad loc")
}

func (ex *Exec) storeLoc(l *Loc, h *Heap, v Term) {
	q := ex.q
	switch l.kind {
	case lkObj:
		st := l.typ.Underlying().(*types.Struct)
		for i := 0; i < st.NumFields(); i++ {
			ex.storeLoc(ex.fieldLoc(l.base, l.typ, i, l.root), h, q.so.structField(v, st, i))
		}
	case lkField, lkCell, lkArray:
		q.heapSet(h, l.key, store(q.heapGet(h, l.key), l.base, v))
	case lkGlobal:
		q.heapSet(h, l.key, v)
	case lkSliceElem:
		m := q.heapGet(h, l.key)
		q.heapSet(h, l.key, store(m, l.base, store(sel(m, l.base), l.idx, v)))
	case lkArrElem:
		pv := ex.load(l.parent, h)
		ex.storeLoc(l.parent, h, store(pv, l.idx, v))
	case lkSub:
		pv := ex.load(l.parent, h)
		st := l.parent.typ.Underlying().(*types.Struct)
		var fs []Term
		for i := 0; i < st.NumFields(); i++ {
			if i == l.field {
				fs = append(fs, v)
			} else {
				fs = append(fs, q.so.structField(pv, st, i))
			}
		}
		ex.storeLoc(l.parent, h, q.so.mkStruct(pv.Sort, fs))
	default:
		panic("store: bad loc")
	}
}

func (ex *Exec) memKey(elem types.Type) string {
	s := ex.q.so.sortOf(elem)
	return ex.regKey("M:"+s, arrSort(sInt, arrSort(sInt, s)))
}

// alloc returns a fresh non-nil reference distinct from every previously allocated one.
func (ex *Exec) alloc(h *Heap, hint string) Term {
	q := ex.q
	a := q.heapGet(h, allocKey)
	r := q.fresh("new_"+hint, sInt)
	q.assume(and(eq(r, a), lt(tInt(0), r)))
	q.heapSet(h, allocKey, add(r, tInt(1)))
	return r
}

// ---------- running ----------

func newExec(q *Q, fn *ssa.Function, parent *Exec) *Exec {
	ex := &Exec{q: q, P: q.P, fn: fn, vals: map[ssa.Value]Term{}, tuples: map[ssa.Value][]Term{}, locs: map[ssa.Value]*Loc{},
		reach: map[*ssa.BasicBlock]Term{}, endHeap: map[*ssa.BasicBlock]*Heap{}, lstate: map[*ssa.BasicBlock]*loopState{},
		counters: map[string]int{}, closures: map[ssa.Value]*ssa.MakeClosure{}, witness: map[string]SV{}}
	ex.root = ex
	ex.parentExec = parent
	if parent != nil {
		if parent.root != nil {
			ex.root = parent.root
		}
		ex.depth = parent.depth + 1
		ex.stack = append(append([]*ssa.Function{}, parent.stack...), fn)
		ex.counters = parent.counters
		ex.skipSafety = parent.skipSafety
	} else {
		ex.stack = []*ssa.Function{fn}
	}
	ex.li = q.P.loops(fn)
	return ex
}

// run executes the function body from entryHeap; returns merged (vals, heap, reach) over return sites.
func (ex *Exec) run() {
	fn := ex.fn
	if len(fn.Blocks) == 0 {
		unsupported("function %s has no body", fn)
	}
	for i, p := range fn.Params {
		ex.vals[p] = ex.params[i]
	}
	for i, fv := range fn.FreeVars {
		if i < len(ex.freeVars) {
			ex.vals[fv] = ex.freeVars[i]
		}
	}
	for _, b := range ex.li.order {
		ex.runBlock(b)
	}
}

func (ex *Exec) edgeCond(p, b *ssa.BasicBlock, occurrence int) Term {
	// occurrence: which of p's successor slots equal to b (0-based)
	switch t := p.Instrs[len(p.Instrs)-1].(type) {
	case *ssa.If:
		if p.Succs[0] == p.Succs[1] {
			return tTrue
		}
		c := ex.val(t.Cond)
		if p.Succs[0] == b {
			return c
		}
		return not(c)
	case *ssa.Jump:
		return tTrue
	}
	return tTrue
}

func (ex *Exec) predEdges(b *ssa.BasicBlock) (conds []Term, heaps []*Heap, idx []int, back []int) {
	for i, p := range b.Preds {
		if ex.li.isBack(p, b) {
			back = append(back, i)
			continue
		}
		r, ok := ex.reach[p]
		if !ok {
			continue // unreachable predecessor (e.g. recover block)
		}
		c := and(r, ex.edgeCond(p, b, 0))
		conds = append(conds, c)
		heaps = append(heaps, ex.endHeap[p])
		idx = append(idx, i)
	}
	return
}

func (ex *Exec) runBlock(b *ssa.BasicBlock) {
	q := ex.q
	var heap *Heap
	var reach Term
	var conds []Term
	var predIdx []int
	if b.Index == 0 {
		heap = ex.entryHeap.clone()
		reach = ex.entryReach
	} else {
		var heaps []*Heap
		conds, heaps, predIdx, _ = ex.predEdges(b)
		if len(conds) == 0 {
			return // unreachable (recover block etc.)
		}
		reach = q.def("reach_"+ex.fn.Name(), or(conds...))
		if ls := ex.li.byHeader[b]; ls != nil {
			heap = ex.enterLoop(b, ls, conds, heaps, predIdx, reach)
		} else {
			heap = q.mergeHeaps(conds, heaps)
		}
	}
	ex.reach[b] = reach
	exc := ex.wantsExc()
	for _, ins := range b.Instrs {
		if phi, ok := ins.(*ssa.Phi); ok {
			if _, done := ex.vals[phi]; done {
				continue // loop header phi, already havoced
			}
			ex.doPhi(phi, b, conds, predIdx)
			continue
		}
		// a failing run-time check (or explicit panic) at ins leaves the function in the heap before ins
		var snap *Heap
		if exc {
			snap = heap.clone()
			ex.pendExc = nil
		}
		ex.instr(ins, b, heap, reach)
		if exc && len(ex.pendExc) > 0 {
			ex.recordExit(or(ex.pendExc...), snap, ins, "run-time failure or explicit panic")
			ex.pendExc = nil
		}
	}
	ex.endHeap[b] = heap
	ex.exitEdges(b, heap, reach)
	// back edges leaving this block
	for _, s := range b.Succs {
		if ex.li.isBack(b, s) {
			ex.backEdge(b, s, and(reach, ex.edgeCond(b, s, 0)), heap)
		}
	}
}

func (ex *Exec) doPhi(phi *ssa.Phi, b *ssa.BasicBlock, conds []Term, predIdx []int) {
	if len(predIdx) == 0 {
		unsupported("phi without reachable preds")
	}
	if _, isPtrLoc := ex.locs[phi.Edges[predIdx[0]]]; isPtrLoc {
		unsupported("phi over interior pointers in %s", ex.fn.Name())
	}
	if tt, ok := phi.Type().(*types.Tuple); ok {
		_ = tt
		unsupported("phi of tuple")
	}
	n := len(predIdx)
	t := ex.val(phi.Edges[predIdx[n-1]])
	for i := n - 2; i >= 0; i-- {
		t = ite(conds[i], ex.val(phi.Edges[predIdx[i]]), t)
	}
	ex.setVal(phi, t)
}

func isNilConst(v ssa.Value) bool {
	c, ok := v.(*ssa.Const)
	return ok && c.Value == nil
}

func (ex *Exec) instr(ins ssa.Instruction, b *ssa.BasicBlock, h *Heap, reach Term) {
	q := ex.q
	so := q.so
	switch x := ins.(type) {
	case *ssa.DebugRef:
		return
	case *ssa.Alloc:
		et := x.Type().(*types.Pointer).Elem()
		r := ex.alloc(h, x.Comment)
		ex.vals[x] = r
		// zero-initialise
		l := ex.locOf(x)
		ex.storeLoc(l, h, ex.zero(et))
	case *ssa.FieldAddr:
		pt := x.X.Type().Underlying().(*types.Pointer).Elem()
		var bl *Loc
		if l, ok := ex.locs[x.X]; ok {
			bl = l
		} else {
			bl = ex.locOf(x.X)
			ex.safety("safe.nil", reach, not(eq(bl.base, tInt(0))), x, "nil dereference: "+x.X.Name()+"."+fieldName(pt, x.Field))
		}
		if bl.kind == lkObj {
			ex.locs[x] = ex.fieldLoc(bl.base, pt, x.Field, bl.root)
		} else {
			st := pt.Underlying().(*types.Struct)
			ex.locs[x] = &Loc{kind: lkSub, parent: bl, field: x.Field, typ: st.Field(x.Field).Type(), root: bl.root}
		}
	case *ssa.IndexAddr:
		idx := ex.ival(x.Index)
		switch xt := x.X.Type().Underlying().(type) {
		case *types.Slice:
			s := ex.val(x.X)
			ex.safety("safe.index", reach, and(le(tInt(0), idx), lt(idx, slLen(s))), x, "slice index "+x.X.Name()+"["+x.Index.Name()+"]")
			ex.locs[x] = &Loc{kind: lkSliceElem, key: ex.memKey(xt.Elem()), base: slBase(s), idx: q.def("idx", add(slOff(s), idx)), typ: xt.Elem(), root: x.X}
		case *types.Pointer:
			at := xt.Elem().Underlying().(*types.Array)
			var pl *Loc
			if l, ok := ex.locs[x.X]; ok {
				pl = l
			} else {
				pl = ex.locOf(x.X)
				if pl.kind != lkGlobal {
					ex.safety("safe.nil", reach, not(eq(pl.base, tInt(0))), x, "nil array pointer")
				}
			}
			if !(isByteType(x.Index.Type()) && at.Len() == 256) {
				ex.safety("safe.index", reach, and(le(tInt(0), idx), lt(idx, tInt(at.Len()))), x, "array index")
			}
			if pl.kind == lkArray {
				ex.locs[x] = &Loc{kind: lkSliceElem, key: pl.key, base: pl.base, idx: idx, typ: at.Elem(), root: pl.root}
			} else {
				ex.locs[x] = &Loc{kind: lkArrElem, parent: pl, idx: idx, typ: at.Elem(), root: pl.root}
			}
		default:
			unsupported("IndexAddr on %s", x.X.Type())
		}
	case *ssa.Field:
		sv := ex.val(x.X)
		ex.setVal(x, so.structField(sv, x.X.Type().Underlying().(*types.Struct), x.Field))
	case *ssa.Index:
		switch xt := x.X.Type().Underlying().(type) {
		case *types.Array:
			idx := ex.ival(x.Index)
			if !(isByteType(x.Index.Type()) && xt.Len() == 256) {
				ex.safety("safe.index", reach, and(le(tInt(0), idx), lt(idx, tInt(xt.Len()))), x, "array index")
			}
			ex.setVal(x, sel(ex.val(x.X), idx))
		case *types.Basic: // string
			s := ex.val(x.X)
			idx := ex.ival(x.Index)
			ex.safety("safe.index", reach, and(le(tInt(0), idx), lt(idx, strLen(s))), x, "string index")
			v := q.def("sidx", strAt(s, idx))
			q.assume(rangeFact(v, types.Typ[types.Uint8]))
			ex.vals[x] = ex.asVal(v, x.Type())
		default:
			unsupported("Index on %s", x.X.Type())
		}
	case *ssa.UnOp:
		ex.unop(x, h, reach)
	case *ssa.BinOp:
		ex.setVal(x, ex.binop(x, reach))
	case *ssa.Store:
		var l *Loc
		if ll, ok := ex.locs[x.Addr]; ok {
			l = ll
		} else {
			l = ex.locOf(x.Addr)
			if l.kind != lkGlobal {
				ex.safety("safe.nil", reach, not(eq(l.base, tInt(0))), x, "store through nil pointer")
			}
		}
		if _, isLoc := ex.locs[x.Val]; isLoc {
			unsupported("storing an interior pointer in %s", ex.fn.Name())
		}
		ex.storeLoc(l, h, ex.val(x.Val))
	case *ssa.Convert:
		ex.setVal(x, ex.convert(x, h, reach))
	case *ssa.ChangeType:
		if l, ok := ex.locs[x.X]; ok {
			ex.locs[x] = l
			return
		}
		ex.vals[x] = ex.val(x.X)
	case *ssa.ChangeInterface:
		ex.vals[x] = ex.val(x.X)
	case *ssa.MakeInterface:
		ex.setVal(x, ex.box(x.X.Type(), ex.val(x.X)))
	case *ssa.TypeAssert:
		ex.typeAssert(x, reach)
	case *ssa.Extract:
		ts, ok := ex.tuples[x.Tuple]
		if !ok {
			unsupported("extract from unknown tuple %s", x.Tuple.Name())
		}
		ex.vals[x] = ts[x.Index]
	case *ssa.Slice:
		ex.slice(x, h, reach)
	case *ssa.MakeSlice:
		ln := ex.ival(x.Len)
		cp := ex.ival(x.Cap)
		ex.safety("safe.makeslice", reach, and(le(tInt(0), ln), le(ln, cp), le(cp, tIntS(maxAllocElems))), x, "make([]T, len, cap) with negative or out-of-range size (cap > 2^47 elements)")
		et := x.Type().Underlying().(*types.Slice).Elem()
		ex.allocGuard(reach, cp, et, x, "make")
		base := ex.alloc(h, "slice")
		key := ex.memKey(et)
		m := q.heapGet(h, key)
		zs := arrSort(sInt, so.sortOf(et))
		q.heapSet(h, key, store(m, base, Term{fmt.Sprintf("((as const %s) %s)", zs, ex.zero(et).S), zs}))
		ex.setVal(x, mkSlice(base, tInt(0), ln, cp))
	case *ssa.MakeMap:
		r := ex.alloc(h, "map")
		mt := x.Type().Underlying().(*types.Map)
		hk, _ := ex.mapKeys(mt)
		ks := so.sortOf(mt.Key())
		q.heapSet(h, hk, store(q.heapGet(h, hk), r, Term{fmt.Sprintf("((as const %s) false)", arrSort(ks, sBool)), arrSort(ks, sBool)}))
		ex.vals[x] = r
	case *ssa.MapUpdate:
		mt := x.Map.Type().Underlying().(*types.Map)
		hk, vk := ex.mapKeys(mt)
		m := ex.val(x.Map)
		ex.safety("safe.nilmap", reach, not(eq(m, tInt(0))), x, "assignment to entry in nil map")
		k := ex.val(x.Key)
		k, _ = ex.resolveMapKey(mt, m, k, h)
		hm := q.heapGet(h, hk)
		vm := q.heapGet(h, vk)
		q.heapSet(h, hk, store(hm, m, store(sel(hm, m), k, tTrue)))
		q.heapSet(h, vk, store(vm, m, store(sel(vm, m), k, ex.val(x.Value))))
	case *ssa.Lookup:
		ex.lookup(x, h, reach)
	case *ssa.Call:
		ex.call(x, x.Common(), h, reach)
	case *ssa.MakeClosure:
		ex.closures[x] = x
		ex.vals[x] = ex.P.closureRef(q, x)
	case *ssa.Range:
		if _, isStr := x.X.Type().Underlying().(*types.Basic); isStr {
			// string iteration: the iterator is a fresh cell holding the byte position
			r := ex.alloc(h, "striter")
			key := ex.regKey("IT:pos", arrSort(sInt, sInt))
			q.heapSet(h, key, store(q.heapGet(h, key), r, tInt(0)))
			ex.vals[x] = r
			ex.strIters = append(ex.strIters, x)
		} else {
			ex.vals[x] = tInt(0) // map iterator token; Next is nondeterministic
		}
	case *ssa.Next:
		tt := x.Type().(*types.Tuple)
		ok := q.fresh("next_ok", sBool)
		k := ex.havocVal("next_k", tt.At(1).Type(), reach)
		var v Term
		if isInvalid(tt.At(2).Type()) {
			v = tInt(0)
		} else {
			v = ex.havocVal("next_v", tt.At(2).Type(), reach)
		}
		if x.IsString {
			if r, isR := x.Iter.(*ssa.Range); isR {
				s := ex.val(r.X)
				it := ex.val(r)
				key := ex.regKey("IT:pos", arrSort(sInt, sInt))
				pos := q.def("iterpos", sel(q.heapGet(h, key), it))
				// exact UTF-8 iteration for ASCII; for a non-ASCII lead byte the rune is some value >= 0x80
				// and the width is 1..4 (not modelled further)
				b0 := strAt(s, pos)
				width := q.fresh("runew", sInt)
				q.assume(eq(ok, lt(pos, strLen(s))))
				kI, vI := k, v
				if isBV(k.Sort) {
					kI, vI = bvToInt(k, true), bvToInt(v, true)
				}
				q.assume(eq(kI, pos))
				q.assume(implies(and(ok, lt(b0, tInt(128))), and(eq(vI, b0), eq(width, tInt(1)))))
				q.assume(implies(and(ok, le(tInt(128), b0)), and(le(tInt(128), vI), le(tInt(1), width), le(width, tInt(4)))))
				q.assume(and(le(tInt(0), pos), le(tInt(1), width)))
				q.heapSet(h, key, store(q.heapGet(h, key), it, ite(ok, add(pos, width), pos)))
			}
		}
		ex.tuples[x] = []Term{ok, k, v}
	case *ssa.If, *ssa.Jump:
		return
	case *ssa.Return:
		var vs []Term
		for _, r := range x.Results {
			if _, isLoc := ex.locs[r]; isLoc {
				unsupported("returning interior pointer")
			}
			vs = append(vs, ex.val(r))
		}
		ex.rets = append(ex.rets, retInfo{reach: reach, vals: vs, heap: h.clone(), pos: ex.pos(x)})
	case *ssa.Panic:
		msg := panicMessage(x)
		allowed := false
		if c := ex.topContract(); c != nil {
			for _, mp := range c.MayPanic {
				if mp == "*" || strings.Contains(msg, mp) {
					allowed = true
				}
			}
		}
		if !allowed && !ex.skipSafety {
			name := ex.obName("unreach.panic")
			q.oblige(name, "unreach.panic", reach, tFalse, ex.pos(x), "explicit panic: "+msg)
		}
		ex.panicked = append(ex.panicked, retInfo{reach: reach, heap: h.clone()})
		if ex.wantsExc() {
			ex.pendExc = append(ex.pendExc, reach)
		}
	case *ssa.RunDefers:
		ex.runDefers(x, h, reach)
	case *ssa.Defer:
		ex.deferInstr(x, h, reach)
	case *ssa.Go, *ssa.Send, *ssa.Select:
		unsupported("concurrency instruction %T", x)
	case *ssa.MultiConvert, *ssa.SliceToArrayPointer, *ssa.MakeChan:
		unsupported("instruction %T", x)
	default:
		unsupported("instruction %T", x)
	}
}

func (ex *Exec) topContract() *Contract { return ex.contract }

func isInvalid(t types.Type) bool {
	b, ok := t.(*types.Basic)
	return ok && b.Kind() == types.Invalid
}

func isByteType(t types.Type) bool {
	b, ok := t.Underlying().(*types.Basic)
	return ok && b.Kind() == types.Uint8
}

func fieldName(t types.Type, i int) string {
	if st, ok := t.Underlying().(*types.Struct); ok && i < st.NumFields() {
		return st.Field(i).Name()
	}
	return fmt.Sprint(i)
}

func panicMessage(p *ssa.Panic) string {
	v := p.X
	if mi, ok := v.(*ssa.MakeInterface); ok {
		v = mi.X
	}
	if c, ok := v.(*ssa.Const); ok && c.Value != nil && c.Value.Kind() == constant.String {
		return constant.StringVal(c.Value)
	}
	if b, ok := v.(*ssa.BinOp); ok {
		if c, ok := b.X.(*ssa.Const); ok && c.Value != nil && c.Value.Kind() == constant.String {
			return constant.StringVal(c.Value) + "..."
		}
	}
	if call, ok := v.(*ssa.Call); ok && len(call.Call.Args) > 0 {
		// panic(fmt.Sprintf("format...", ...))
		if c, ok := call.Call.Args[0].(*ssa.Const); ok && c.Value != nil && c.Value.Kind() == constant.String {
			return constant.StringVal(c.Value)
		}
	}
	return "<dynamic>"
}

func (ex *Exec) mapKeys(mt *types.Map) (string, string) {
	ks, vs := ex.q.so.sortOf(mt.Key()), ex.q.so.sortOf(mt.Elem())
	hk := ex.regKey("MH:"+ks+":"+vs, arrSort(sInt, arrSort(ks, sBool)))
	vk := ex.regKey("MV:"+ks+":"+vs, arrSort(sInt, arrSort(ks, vs)))
	return hk, vk
}

// contentEq: Go == on comparable values of type t (strings by content).
func (ex *Exec) contentEq(t types.Type, a, b Term) Term {
	switch u := t.Underlying().(type) {
	case *types.Basic:
		if u.Info()&types.IsString != 0 {
			return ex.q.strEq(a, b)
		}
	case *types.Struct:
		var cs []Term
		for i := 0; i < u.NumFields(); i++ {
			cs = append(cs, ex.contentEq(u.Field(i).Type(), ex.q.so.structField(a, u, i), ex.q.so.structField(b, u, i)))
		}
		return and(cs...)
	}
	return eq(a, b)
}

func typeHasString(t types.Type) bool {
	switch u := t.Underlying().(type) {
	case *types.Basic:
		return u.Info()&types.IsString != 0
	case *types.Struct:
		for i := 0; i < u.NumFields(); i++ {
			if typeHasString(u.Field(i).Type()) {
				return true
			}
		}
	case *types.Array:
		return typeHasString(u.Elem())
	}
	return false
}

// resolveMapKey: maps are modelled with structurally compared keys.  For key types containing strings
// (compared by content in Go) a lookup may also hit any present key that is content-equal: the key
// actually used is k' (an arbitrary present content-equal key) if the solver picks one, else k itself.
// This over-approximates both outcomes of the real lookup.
func (ex *Exec) resolveMapKey(mt *types.Map, m, k Term, h *Heap) (Term, Term) {
	q := ex.q
	if !typeHasString(mt.Key()) || q.pureDepth > 0 {
		return k, tTrue
	}
	hk, _ := ex.mapKeys(mt)
	k2 := q.fresh("mapkey", k.Sort)
	hit := q.fresh("keyhit", sBool)
	hm := q.heapGet(h, hk)
	q.assume(implies(hit, and(sel(sel(hm, m), k2), ex.contentEq(mt.Key(), k2, k))))
	q.nfresh++
	k3 := Term{fmt.Sprintf("k3!%d", q.nfresh), k.Sort}
	q.assume(Term{fmt.Sprintf("(forall ((%s %s)) (! (=> (and %s %s) %s) :pattern (%s)))", k3.S, k.Sort,
		sel(sel(hm, m), k3).S, ex.contentEq(mt.Key(), k3, k).S, hit.S, sel(sel(hm, m), k3).S), sBool})
	return q.def("keyeff", ite(hit, k2, k)), hit
}

func (ex *Exec) lookup(x *ssa.Lookup, h *Heap, reach Term) {
	q := ex.q
	if mt, ok := x.X.Type().Underlying().(*types.Map); ok {
		hk, vk := ex.mapKeys(mt)
		m := ex.val(x.X)
		k := ex.val(x.Index)
		k, _ = ex.resolveMapKey(mt, m, k, h)
		has := q.def("has", and(not(eq(m, tInt(0))), sel(sel(q.heapGet(h, hk), m), k)))
		v := q.def("mapv", ite(has, sel(sel(q.heapGet(h, vk), m), k), ex.zero(mt.Elem())))
		ex.typeFacts(v, mt.Elem())
		if x.CommaOk {
			ex.tuples[x] = []Term{v, has}
		} else {
			ex.vals[x] = v
		}
		return
	}
	// string index
	s := ex.val(x.X)
	idx := ex.ival(x.Index)
	ex.safety("safe.index", reach, and(le(tInt(0), idx), lt(idx, strLen(s))), x, "string index")
	v := q.def("sidx", strAt(s, idx))
	q.assume(rangeFact(v, types.Typ[types.Uint8]))
	ex.vals[x] = ex.asVal(v, x.Type())
}

func (ex *Exec) unop(x *ssa.UnOp, h *Heap, reach Term) {
	q := ex.q
	switch x.Op {
	case token.MUL: // load
		var l *Loc
		if ll, ok := ex.locs[x.X]; ok {
			l = ll
		} else {
			l = ex.locOf(x.X)
			if l.kind != lkGlobal {
				ex.safety("safe.nil", reach, not(eq(l.base, tInt(0))), x, "load through nil pointer "+x.X.Name())
			}
		}
		v := q.def(ex.fn.Name()+"_"+x.Name(), ex.load(l, h))
		ex.vals[x] = v
		ex.typeFacts(v, x.Type())
		if isPointerLike(x.Type()) && q.pureDepth == 0 {
			q.assume(lt(v, q.heapGet(h, allocKey)))
		}
		if _, isSl := x.Type().Underlying().(*types.Slice); isSl && q.pureDepth == 0 {
			q.assume(validBlock(slBase(v), q.heapGet(h, allocKey)))
		}
	case token.NOT:
		ex.setVal(x, not(ex.val(x.X)))
	case token.SUB:
		v := ex.val(x.X)
		if v.Sort == sF64 || v.Sort == sF32 {
			ex.setVal(x, app(v.Sort, "fp.neg", v))
			return
		}
		if isBV(v.Sort) {
			ex.setVal(x, app(v.Sort, "bvneg", v))
			return
		}
		ex.setVal(x, ex.wrapTo(app(sInt, "-", v), x.Type()))
	case token.XOR:
		v := ex.val(x.X)
		if isBV(v.Sort) {
			ex.setVal(x, app(v.Sort, "bvnot", v))
			return
		}
		// ^x = -x-1 for signed; for unsigned: max - x
		lo, hi, _ := intRange(x.Type())
		if lo == "0" {
			ex.setVal(x, sub(tIntS(hi), v))
		} else {
			ex.setVal(x, sub(app(sInt, "-", v), tInt(1)))
		}
	default:
		unsupported("unop %s", x.Op)
	}
}

// wrapTo reduces a mathematical integer to the range of Go type t.
// For 64-bit types the value is left mathematical unless overflow checking is on
// (then an obligation is generated by the caller).
func (ex *Exec) wrapTo(v Term, t types.Type) Term {
	lo, hi, ok := intRange(t)
	if !ok {
		return v
	}
	b := t.Underlying().(*types.Basic)
	switch b.Kind() {
	case types.Int, types.Int64:
		if ex.arithWrap() {
			return app(sInt, "wrap64", v)
		}
		return v
	case types.Uint, types.Uint64, types.Uintptr:
		if ex.arithWrap() {
			return app(sInt, "mod", v, tIntS("18446744073709551616"))
		}
		return v
	case types.Int32:
		return app(sInt, "wrap32", v)
	}
	if lo == "0" {
		n := new(big.Int)
		n.SetString(hi, 10)
		n.Add(n, big.NewInt(1))
		return app(sInt, "mod", v, tIntS(n.String()))
	}
	// small signed
	n := new(big.Int)
	n.SetString(hi, 10)
	n.Add(n, big.NewInt(1))
	two := new(big.Int).Mul(n, big.NewInt(2))
	return sub(app(sInt, "mod", add(v, tIntS(n.String())), tIntS(two.String())), tIntS(n.String()))
}

func (ex *Exec) arithWrap() bool {
	c := ex.P.contracts.get(funcKey(ex.stack[0]))
	return c != nil && c.Arith == "wrap"
}

func (ex *Exec) overflowCheck() bool {
	if ex.root != nil && ex.root.contract != nil {
		return ex.root.contract.Overflow
	}
	if ex.root == nil && ex.contract != nil {
		return ex.contract.Overflow
	}
	c := ex.P.contracts.get(funcKey(ex.stack[0]))
	return c != nil && c.Overflow
}

func (ex *Exec) binop(x *ssa.BinOp, reach Term) Term {
	q := ex.q
	a, b := ex.val(x.X), ex.val(x.Y)
	xt := x.X.Type()
	srt := q.so.sortOf(xt)
	if isBV(srt) {
		return ex.bvBinop(x, a, b, reach)
	}
	switch srt {
	case sInt:
		if isPointerLike(xt) {
			switch x.Op {
			case token.EQL:
				return eq(a, b)
			case token.NEQ:
				return not(eq(a, b))
			}
			unsupported("pointer binop %s", x.Op)
		}
		arith := func(r Term) Term {
			if ex.overflowCheck() {
				if lo, hi, ok := intRange(x.Type()); ok {
					ex.safety("safe.overflow", reach, and(le(tIntS(lo), r), le(r, tIntS(hi))), x, "integer overflow in "+x.Op.String())
				}
			}
			return ex.wrapTo(r, x.Type())
		}
		switch x.Op {
		case token.ADD:
			return arith(add(a, b))
		case token.SUB:
			return arith(sub(a, b))
		case token.MUL:
			return arith(app(sInt, "*", a, b))
		case token.QUO:
			ex.safety("safe.div", reach, not(eq(b, tInt(0))), x, "integer division by zero")
			return ex.wrapTo(app(sInt, "tdiv", a, b), x.Type())
		case token.REM:
			ex.safety("safe.div", reach, not(eq(b, tInt(0))), x, "integer modulo by zero")
			return app(sInt, "tmod", a, b)
		case token.EQL:
			return eq(a, b)
		case token.NEQ:
			return not(eq(a, b))
		case token.LSS:
			return lt(a, b)
		case token.LEQ:
			return le(a, b)
		case token.GTR:
			return lt(b, a)
		case token.GEQ:
			return le(b, a)
		case token.SHL, token.SHR:
			if _, hiY, _ := intRange(x.Y.Type()); true {
				_ = hiY
				if lo, _, ok := intRange(x.Y.Type()); ok && lo != "0" {
					ex.safety("safe.shift", reach, le(tInt(0), b), x, "negative shift count")
				}
			}
			if c, ok := x.Y.(*ssa.Const); ok && c.Value != nil {
				k, _ := constant.Int64Val(constant.ToInt(c.Value))
				if k >= 0 && k < 64 {
					p := new(big.Int).Lsh(big.NewInt(1), uint(k))
					if x.Op == token.SHL {
						return ex.wrapTo(app(sInt, "*", a, tIntS(p.String())), x.Type())
					}
					return app(sInt, "div", a, tIntS(p.String()))
				}
			}
			if x.Op == token.SHL {
				return ex.uf64("uf_shl", a, b, x.Type())
			}
			return ex.uf64("uf_shr", a, b, x.Type())
		case token.AND, token.OR, token.XOR:
			if isByteType(x.Type()) {
				op := map[token.Token]string{token.AND: "band8", token.OR: "bor8", token.XOR: "bxor8"}[x.Op]
				return app(sInt, op, a, b)
			}
			op := map[token.Token]string{token.AND: "uf_and", token.OR: "uf_or", token.XOR: "uf_xor"}[x.Op]
			return ex.uf64(op, a, b, x.Type())
		case token.AND_NOT:
			unsupported("&^")
		}
	case sBool:
		switch x.Op {
		case token.EQL:
			return eq(a, b)
		case token.NEQ:
			return not(eq(a, b))
		case token.AND:
			return and(a, b)
		case token.OR:
			return or(a, b)
		}
	case sStr:
		switch x.Op {
		case token.EQL:
			return q.strEq(a, b)
		case token.NEQ:
			return not(q.strEq(a, b))
		case token.ADD:
			ex.allocGuard(reach, add(strLen(a), strLen(b)), types.Typ[types.Uint8], x, "string concatenation")
			return ex.concat(a, b)
		case token.LSS:
			return app(sBool, "uf_strlt", a, b)
		case token.GTR:
			return app(sBool, "uf_strlt", b, a)
		case token.LEQ:
			return not(app(sBool, "uf_strlt", b, a))
		case token.GEQ:
			return not(app(sBool, "uf_strlt", a, b))
		}
	case sF64, sF32:
		switch x.Op {
		case token.ADD:
			return app(srt, "fp.add RNE", a, b)
		case token.SUB:
			return app(srt, "fp.sub RNE", a, b)
		case token.MUL:
			return app(srt, "fp.mul RNE", a, b)
		case token.QUO:
			return app(srt, "fp.div RNE", a, b)
		case token.EQL:
			return app(sBool, "fp.eq", a, b)
		case token.NEQ:
			return not(app(sBool, "fp.eq", a, b))
		case token.LSS:
			return app(sBool, "fp.lt", a, b)
		case token.LEQ:
			return app(sBool, "fp.leq", a, b)
		case token.GTR:
			return app(sBool, "fp.gt", a, b)
		case token.GEQ:
			return app(sBool, "fp.geq", a, b)
		}
	case sIface:
		// interface comparison: identical dynamic type and value; comparing two values of the same uncomparable
		// dynamic type (a struct holding a slice, map or function) panics at run time
		if _, xIsConst := x.X.(*ssa.Const); !xIsConst {
			if _, yIsConst := x.Y.(*ssa.Const); !yIsConst {
				if it, isIface := x.X.Type().Underlying().(*types.Interface); isIface {
					var bad []Term
					for _, t := range ex.P.implementers(x.X.Type()) {
						if !types.Comparable(t) {
							bad = append(bad, eq(ifTag(a), tInt(int64(q.so.tag(t)))))
						}
					}
					_ = it
					if len(bad) > 0 {
						ex.safety("safe.ifacecmp", reach, not(and(eq(ifTag(a), ifTag(b)), or(bad...))), x, "== on interface values whose common dynamic type is not comparable")
					}
				}
			}
		}
		switch x.Op {
		case token.EQL:
			return ex.ifaceEq(x.X, x.Y, a, b)
		case token.NEQ:
			return not(ex.ifaceEq(x.X, x.Y, a, b))
		}
	default:
		switch x.Op {
		case token.EQL:
			return eq(a, b)
		case token.NEQ:
			return not(eq(a, b))
		}
	}
	unsupported("binop %s on %s", x.Op, xt)
	return Term{}
}

func (ex *Exec) ifaceEq(xv, yv ssa.Value, a, b Term) Term {
	if isNilConst(yv) {
		return eq(ifTag(a), tInt(0))
	}
	if isNilConst(xv) {
		return eq(ifTag(b), tInt(0))
	}
	return eq(a, b)
}

func (ex *Exec) uf64(op string, a, b Term, t types.Type) Term {
	v := ex.q.def(op, app(sInt, op, a, b))
	if ex.q.pureDepth == 0 {
		ex.q.assume(rangeFact(v, t))
	}
	return v
}

// concat models string concatenation with instantiated facts about the result.
func (ex *Exec) concat(a, b Term) Term {
	q := ex.q
	if q.pureDepth > 0 {
		return app(sStr, "uf_concat", a, b)
	}
	la, aok := q.litOf[a.S]
	lb, bok := q.litOf[b.S]
	if aok && bok {
		return q.strLit(la + lb)
	}
	r := q.fresh("concat", sStr)
	q.assume(eq(r, app(sStr, "uf_concat", a, b)))
	q.assume(and(eq(strLen(r), add(strLen(a), strLen(b))), eq(strOff(r), tInt(0))))
	// content: quantified definition
	q.assume(Term{fmt.Sprintf("(forall ((i Int)) (! (=> (and (<= 0 i) (< i (s_len %s))) (= (select (s_data %s) i) (ite (< i (s_len %s)) (str_at %s i) (str_at %s (- i (s_len %s)))))) :pattern ((select (s_data %s) i))))",
		r.S, r.S, a.S, a.S, b.S, a.S, r.S), sBool})
	return r
}

func (ex *Exec) convert(x *ssa.Convert, h *Heap, reach Term) Term {
	q := ex.q
	from, to := x.X.Type(), x.Type()
	v := ex.val(x.X)
	fs, ts := q.so.sortOf(from), q.so.sortOf(to)
	switch {
	case isBV(fs) && isBV(ts):
		fw, tw := bvWidthOfSort(fs), bvWidthOfSort(ts)
		switch {
		case fw == tw:
			return v
		case fw > tw:
			return app(ts, fmt.Sprintf("(_ extract %d 0)", tw-1), v)
		case isSignedInt(from):
			return app(ts, fmt.Sprintf("(_ sign_extend %d)", tw-fw), v)
		default:
			return app(ts, fmt.Sprintf("(_ zero_extend %d)", tw-fw), v)
		}
	case isBV(fs) && (ts == sF64 || ts == sF32):
		if isSignedInt(from) {
			return app(ts, "(_ to_fp "+fpDims(ts)+") RNE", v)
		}
		return app(ts, "(_ to_fp_unsigned "+fpDims(ts)+") RNE", v)
	case (fs == sF64 || fs == sF32) && isBV(ts):
		// Go: result is implementation-specific when out of range; modelled with SMT's (unspecified) value
		if isSignedInt(to) {
			return app(ts, fmt.Sprintf("(_ fp.to_sbv %d) RTZ", bvWidthOfSort(ts)), v)
		}
		return app(ts, fmt.Sprintf("(_ fp.to_ubv %d) RTZ", bvWidthOfSort(ts)), v)
	case isBV(fs) && ts == sStr:
		return ex.rune2str(bvToInt(v, isSignedInt(from)), to, reach)
	case isBV(fs) && ts == sInt, fs == sInt && isBV(ts):
		// pointer <-> integer conversions (unsafe): not modelled
		unsupported("convert %s -> %s", from, to)
	case fs == sInt && ts == sInt:
		if isPointerLike(from) || isPointerLike(to) {
			return v
		}
		flo, fhi, _ := intRange(from)
		tlo, thi, _ := intRange(to)
		if cmpDec(tlo, flo) <= 0 && cmpDec(fhi, thi) <= 0 {
			return v // widening
		}
		return ex.wrapToForce(v, to)
	case fs == sSlice && ts == sStr:
		// string(bytes): snapshot of the backing array
		et := from.Underlying().(*types.Slice).Elem()
		if !isByteType(et) {
			return ex.havocVal("runes2str", to, reach)
		}
		data := sel(q.heapGet(h, ex.memKey(et)), slBase(v))
		return mkStr(data, slOff(v), slLen(v))
	case fs == sStr && ts == sSlice:
		et := to.Underlying().(*types.Slice).Elem()
		if !isByteType(et) {
			return ex.havocVal("str2runes", to, reach)
		}
		base := ex.alloc(h, "bytes")
		key := ex.memKey(et)
		q.heapSet(h, key, store(q.heapGet(h, key), base, strData(v)))
		return mkSlice(base, strOff(v), strLen(v), strLen(v))
	case fs == sInt && ts == sStr:
		return ex.rune2str(v, to, reach)
	case fs == sInt && (ts == sF64 || ts == sF32):
		return app(ts, "(_ to_fp "+fpDims(ts)+") RNE", app("Real", "to_real", v))
	case (fs == sF64 || fs == sF32) && ts == sInt:
		r := ex.havocVal("f2i", to, reach)
		return r
	case fs == sF64 && ts == sF32, fs == sF32 && ts == sF64:
		return app(ts, "(_ to_fp "+fpDims(ts)+") RNE", v)
	case fs == ts:
		return v
	}
	unsupported("convert %s -> %s", from, to)
	return Term{}
}

// string(rune)
func (ex *Exec) rune2str(v Term, to types.Type, reach Term) Term {
	q := ex.q
	r := ex.havocVal("rune2str", to, reach)
	q.declFun("uf_rune2str", "(Int) Str")
	q.assume(eq(r, app(sStr, "uf_rune2str", v)))
	// for ASCII (incl. bytes < 0x80) the result is that one byte
	q.assume(implies(and(le(tInt(0), v), lt(v, tInt(128))), and(eq(strLen(r), tInt(1)), eq(strAt(r, tInt(0)), v))))
	q.assume(and(le(tInt(1), strLen(r)), le(strLen(r), tInt(4))))
	return r
}

// bvBinop: fixed-width machine arithmetic (Go semantics: wrap-around, truncated division).
func (ex *Exec) bvBinop(x *ssa.BinOp, a, b Term, reach Term) Term {
	srt := a.Sort
	w := bvWidthOfSort(srt)
	signed := isSignedInt(x.X.Type())
	zero := bvLit("0", w)
	pick := func(s, u string) string {
		if signed {
			return s
		}
		return u
	}
	switch x.Op {
	case token.ADD:
		return app(srt, "bvadd", a, b)
	case token.SUB:
		return app(srt, "bvsub", a, b)
	case token.MUL:
		return app(srt, "bvmul", a, b)
	case token.QUO:
		ex.safety("safe.div", reach, not(eq(b, zero)), x, "integer division by zero")
		return app(srt, pick("bvsdiv", "bvudiv"), a, b)
	case token.REM:
		ex.safety("safe.div", reach, not(eq(b, zero)), x, "integer modulo by zero")
		return app(srt, pick("bvsrem", "bvurem"), a, b)
	case token.AND:
		return app(srt, "bvand", a, b)
	case token.OR:
		return app(srt, "bvor", a, b)
	case token.XOR:
		return app(srt, "bvxor", a, b)
	case token.AND_NOT:
		return app(srt, "bvand", a, app(srt, "bvnot", b))
	case token.EQL:
		return eq(a, b)
	case token.NEQ:
		return not(eq(a, b))
	case token.LSS:
		return app(sBool, pick("bvslt", "bvult"), a, b)
	case token.LEQ:
		return app(sBool, pick("bvsle", "bvule"), a, b)
	case token.GTR:
		return app(sBool, pick("bvsgt", "bvugt"), a, b)
	case token.GEQ:
		return app(sBool, pick("bvsge", "bvuge"), a, b)
	case token.SHL, token.SHR:
		// shift count: any integer type; negative signed count panics
		cw := bvWidthOfSort(b.Sort)
		cnt := b
		if isSignedInt(x.Y.Type()) {
			ex.safety("safe.shift", reach, app(sBool, "bvsge", b, bvLit("0", cw)), x, "negative shift count")
		}
		// bring the count to width w, saturating (a count >= w shifts everything out)
		switch {
		case cw < w:
			cnt = app(srt, fmt.Sprintf("(_ zero_extend %d)", w-cw), b)
		case cw > w:
			big := app(sBool, "bvuge", b, bvLit(fmt.Sprint(w), cw))
			cnt = ite(big, bvLit(fmt.Sprint(w), w), app(srt, fmt.Sprintf("(_ extract %d 0)", w-1), b))
		}
		if x.Op == token.SHL {
			return app(srt, "bvshl", a, cnt)
		}
		return app(srt, pick("bvashr", "bvlshr"), a, cnt)
	}
	unsupported("bv binop %s", x.Op)
	return Term{}
}

func (ex *Exec) bvResize(v Term, tw int, signed bool) Term {
	fw := bvWidthOfSort(v.Sort)
	ts := bvSort(tw)
	switch {
	case fw == tw:
		return v
	case fw > tw:
		return app(ts, fmt.Sprintf("(_ extract %d 0)", tw-1), v)
	case signed:
		return app(ts, fmt.Sprintf("(_ sign_extend %d)", tw-fw), v)
	}
	return app(ts, fmt.Sprintf("(_ zero_extend %d)", tw-fw), v)
}

func fpDims(s string) string {
	if s == sF32 {
		return "8 24"
	}
	return "11 53"
}

func (ex *Exec) wrapToForce(v Term, t types.Type) Term {
	lo, hi, ok := intRange(t)
	if !ok {
		return v
	}
	n := new(big.Int)
	n.SetString(hi, 10)
	n.Add(n, big.NewInt(1))
	if lo == "0" {
		return app(sInt, "mod", v, tIntS(n.String()))
	}
	two := new(big.Int).Mul(n, big.NewInt(2))
	return sub(app(sInt, "mod", add(v, tIntS(n.String())), tIntS(two.String())), tIntS(n.String()))
}

func cmpDec(a, b string) int {
	x, y := new(big.Int), new(big.Int)
	x.SetString(a, 10)
	y.SetString(b, 10)
	return x.Cmp(y)
}

func (ex *Exec) slice(x *ssa.Slice, h *Heap, reach Term) {
	q := ex.q
	var lo, hi Term
	if x.Low != nil {
		lo = ex.ival(x.Low)
	} else {
		lo = tInt(0)
	}
	switch xt := x.X.Type().Underlying().(type) {
	case *types.Basic: // string
		s := ex.val(x.X)
		if x.High != nil {
			hi = ex.ival(x.High)
		} else {
			hi = strLen(s)
		}
		ex.safety("safe.slice", reach, and(le(tInt(0), lo), le(lo, hi), le(hi, strLen(s))), x, "string slice bounds")
		ex.setVal(x, mkStr(strData(s), add(strOff(s), lo), sub(hi, lo)))
	case *types.Slice:
		s := ex.val(x.X)
		if x.High != nil {
			hi = ex.ival(x.High)
		} else {
			hi = slLen(s)
		}
		var mx Term
		if x.Max != nil {
			mx = ex.ival(x.Max)
			ex.safety("safe.slice", reach, and(le(tInt(0), lo), le(lo, hi), le(hi, mx), le(mx, slCap(s))), x, "slice bounds (3-index)")
		} else {
			mx = slCap(s)
			ex.safety("safe.slice", reach, and(le(tInt(0), lo), le(lo, hi), le(hi, slCap(s))), x, "slice bounds")
		}
		ex.setVal(x, mkSlice(slBase(s), add(slOff(s), lo), sub(hi, lo), sub(mx, lo)))
	case *types.Pointer:
		// slicing an array: the array lives in a field/cell; we model the resulting slice as a view
		// whose backing store is a fresh snapshot (sound for reads; writes through it are not tracked back).
		at := xt.Elem().Underlying().(*types.Array)
		var pl *Loc
		if l, ok := ex.locs[x.X]; ok {
			pl = l
		} else {
			pl = ex.locOf(x.X)
		}
		if x.High != nil {
			hi = ex.ival(x.High)
		} else {
			hi = tInt(at.Len())
		}
		ex.safety("safe.slice", reach, and(le(tInt(0), lo), le(lo, hi), le(hi, tInt(at.Len()))), x, "array slice bounds")
		if pl.kind == lkArray {
			ex.setVal(x, mkSlice(pl.base, lo, sub(hi, lo), sub(tInt(at.Len()), lo)))
			return
		}
		base := ex.alloc(h, "arrview")
		key := ex.memKey(at.Elem())
		q.heapSet(h, key, store(q.heapGet(h, key), base, ex.load(pl, h)))
		q.note("slice of array in %s modelled as a snapshot view (writes through the slice are not propagated to the array)", ex.fn.Name())
		ex.setVal(x, mkSlice(base, lo, sub(hi, lo), sub(tInt(at.Len()), lo)))
	default:
		unsupported("slice of %s", x.X.Type())
	}
}

// ---------- interfaces ----------

func (ex *Exec) box(t types.Type, v Term) Term {
	q := ex.q
	if _, isIface := t.Underlying().(*types.Interface); isIface {
		return v
	}
	tag := q.so.tag(t)
	if isPointerLike(t) {
		return mkIface(tInt(int64(tag)), v)
	}
	s := q.so.sortOf(t)
	bn, un := "box_"+sanitize(t.String()), "unbox_"+sanitize(t.String())
	q.declFun(bn, "("+s+") Int")
	q.declFun(un, "(Int) "+s)
	bv := app(sInt, bn, v)
	if q.pureDepth == 0 {
		q.assume(eq(app(s, un, bv), v))
	}
	return mkIface(tInt(int64(tag)), bv)
}

func (ex *Exec) unbox(t types.Type, iv Term) Term {
	q := ex.q
	if isPointerLike(t) {
		return ifVal(iv)
	}
	s := q.so.sortOf(t)
	bn, un := "box_"+sanitize(t.String()), "unbox_"+sanitize(t.String())
	q.declFun(bn, "("+s+") Int")
	q.declFun(un, "(Int) "+s)
	r := app(s, un, ifVal(iv))
	if q.pureDepth == 0 {
		// payloads of dynamic type t are exactly the boxed values of t (box and unbox are inverse)
		k := "boxinv|" + iv.S + "|" + bn
		if !q.nilChecked[k] {
			q.nilChecked[k] = true
			q.assume(implies(eq(ifTag(iv), tInt(int64(q.so.tag(t)))), eq(app(sInt, bn, r), ifVal(iv))))
			ex.typeFacts(r, t)
		}
	}
	return r
}

func (ex *Exec) typeAssert(x *ssa.TypeAssert, reach Term) {
	q := ex.q
	iv := ex.val(x.X)
	if _, toIface := x.AssertedType.Underlying().(*types.Interface); toIface {
		ok := ex.implementsTerm(iv, x.AssertedType)
		if x.CommaOk {
			ex.tuples[x] = []Term{ite(ok, iv, mkIface(tInt(0), tInt(0))), ok}
		} else {
			ex.safety("safe.typeassert", reach, ok, x, "interface conversion to "+x.AssertedType.String())
			ex.vals[x] = iv
		}
		return
	}
	tag := tInt(int64(q.so.tag(x.AssertedType)))
	ok := q.def("isT", eq(ifTag(iv), tag))
	v := ex.unbox(x.AssertedType, iv)
	if x.CommaOk {
		vv := q.def("ta", ite(ok, v, ex.zero(x.AssertedType)))
		ex.typeFacts(vv, x.AssertedType)
		ex.tuples[x] = []Term{vv, ok}
	} else {
		ex.safety("safe.typeassert", reach, ok, x, "type assertion "+x.X.Name()+".("+x.AssertedType.String()+")")
		vv := q.def("ta", v)
		ex.typeFacts(vv, x.AssertedType)
		ex.vals[x] = vv
	}
}

// implementsTerm: dynamic type of iv is non-nil and one of the known implementers of the interface type.
func (ex *Exec) implementsTerm(iv Term, it types.Type) Term {
	impls := ex.P.implementers(it)
	var cs []Term
	for _, t := range impls {
		cs = append(cs, eq(ifTag(iv), tInt(int64(ex.q.so.tag(t)))))
	}
	if len(cs) == 0 {
		return not(eq(ifTag(iv), tInt(0)))
	}
	return or(cs...)
}

// ---------- misc helpers ----------

func float64bits(f float64) uint64 {
	return mathFloat64bits(f)
}

type byIndex []*ssa.BasicBlock

func (a byIndex) Len() int           { return len(a) }
func (a byIndex) Swap(i, j int)      { a[i], a[j] = a[j], a[i] }
func (a byIndex) Less(i, j int) bool { return a[i].Index < a[j].Index }

var _ = sort.Sort

// privateAlloc: a local whose address never leaves the function (only loaded/stored through, directly or via
// field/element addresses): no callee can change it, so its content survives heap havocs.
func privateAlloc(a *ssa.Alloc) bool {
	var ok func(v ssa.Value, depth int) bool
	ok = func(v ssa.Value, depth int) bool {
		if depth > 4 || v.Referrers() == nil {
			return false
		}
		for _, r := range *v.Referrers() {
			switch x := r.(type) {
			case *ssa.DebugRef:
			case *ssa.UnOp:
				if x.X != v {
					return false
				}
			case *ssa.Store:
				if x.Addr != v || x.Val == v {
					return false
				}
			case *ssa.FieldAddr:
				if !ok(x, depth+1) {
					return false
				}
			case *ssa.IndexAddr:
				if x.X != v || !ok(x, depth+1) {
					return false
				}
			case *ssa.Return:
				// handed to the caller only when this activation ends: no callee of this activation ever sees it
				if depth != 0 {
					return false
				}
			case *ssa.MakeInterface:
				if depth != 0 || x.Referrers() == nil {
					return false
				}
				for _, r2 := range *x.Referrers() {
					switch r2.(type) {
					case *ssa.Return, *ssa.DebugRef:
					default:
						return false
					}
				}
			default:
				return false
			}
		}
		return true
	}
	return ok(a, 0)
}

// privateSlice: a slice value whose memory block was allocated by this activation (make, a callee whose contract
// says `fresh`, or append of such a slice) and is only indexed, re-sliced, appended to, measured or returned:
// no callee ever sees the block, so its content survives heap havocs.  users collects the instructions that can
// write the block (stores through element addresses, appends).
func (ex *Exec) privateSlice(v ssa.Value) (bool, []ssa.Instruction) {
	if _, isSl := v.Type().Underlying().(*types.Slice); !isSl {
		return false, nil
	}
	if c, ok := ex.privCache[v]; ok {
		return c.ok, c.users
	}
	seen := map[ssa.Value]bool{}
	var users []ssa.Instruction
	var origin func(v ssa.Value) bool
	var usesOK func(v ssa.Value) bool
	isAppend := func(c *ssa.Call) bool {
		b, ok := c.Call.Value.(*ssa.Builtin)
		return ok && b.Name() == "append"
	}
	origin = func(v ssa.Value) bool {
		if seen[v] {
			return true
		}
		seen[v] = true
		okO := false
		switch x := v.(type) {
		case *ssa.MakeSlice:
			okO = true
		case *ssa.Call:
			if isAppend(x) {
				okO = origin(x.Call.Args[0])
			} else if f := staticCallee(&x.Call); f != nil {
				if c := ex.P.contracts.get(funcKey(f)); c != nil && c.Fresh {
					okO = true
				}
			}
		case *ssa.Phi:
			okO = true
			for _, e := range x.Edges {
				if !origin(e) {
					okO = false
				}
			}
		case *ssa.Slice:
			okO = origin(x.X)
		}
		return okO && usesOK(v)
	}
	usesOK = func(v ssa.Value) bool {
		if v.Referrers() == nil {
			return false
		}
		for _, r := range *v.Referrers() {
			switch x := r.(type) {
			case *ssa.DebugRef, *ssa.Return:
			case *ssa.IndexAddr:
				if x.X != v || x.Referrers() == nil {
					return false
				}
				for _, r2 := range *x.Referrers() {
					switch y := r2.(type) {
					case *ssa.DebugRef:
					case *ssa.UnOp:
					case *ssa.Store:
						if y.Addr != ssa.Value(x) {
							return false
						}
						users = append(users, y)
					default:
						return false
					}
				}
			case *ssa.Phi:
				if !origin(x) {
					return false
				}
			case *ssa.Slice:
				if x.X != v || !origin(x) {
					return false
				}
			case *ssa.Call:
				b, isB := x.Call.Value.(*ssa.Builtin)
				if !isB {
					return false
				}
				switch b.Name() {
				case "len", "cap":
				case "append":
					if x.Call.Args[0] != v {
						return false
					}
					for _, a := range x.Call.Args[1:] {
						if a == v {
							return false
						}
					}
					users = append(users, x)
					if !origin(x) {
						return false
					}
				default:
					return false
				}
			default:
				return false
			}
		}
		return true
	}
	ok := origin(v)
	if ex.privCache == nil {
		ex.privCache = map[ssa.Value]privInfo{}
	}
	ex.privCache[v] = privInfo{ok, users}
	return ok, users
}

type privInfo struct {
	ok    bool
	users []ssa.Instruction
}

// readOnlyCaptured: a local variable captured only by closures that are deferred or called directly by this function
// and that only read it: no callee can change it, so its content survives heap havocs.
func readOnlyCaptured(a *ssa.Alloc) bool {
	if a.Referrers() == nil {
		return false
	}
	for _, r := range *a.Referrers() {
		switch x := r.(type) {
		case *ssa.DebugRef:
		case *ssa.UnOp:
			if x.X != ssa.Value(a) {
				return false
			}
		case *ssa.Store:
			if x.Addr != ssa.Value(a) || x.Val == ssa.Value(a) {
				return false
			}
		case *ssa.MakeClosure:
			if x.Referrers() == nil {
				return false
			}
			for _, r2 := range *x.Referrers() {
				switch y := r2.(type) {
				case *ssa.DebugRef:
				case *ssa.Defer:
					if y.Call.Value != ssa.Value(x) {
						return false
					}
				case *ssa.Call:
					if y.Call.Value != ssa.Value(x) {
						return false
					}
				default:
					return false
				}
			}
			fn := x.Fn.(*ssa.Function)
			for i, b := range x.Bindings {
				if b != ssa.Value(a) {
					continue
				}
				if i >= len(fn.FreeVars) || fn.FreeVars[i].Referrers() == nil {
					return false
				}
				for _, r3 := range *fn.FreeVars[i].Referrers() {
					switch z := r3.(type) {
					case *ssa.DebugRef:
					case *ssa.UnOp:
						if z.X != ssa.Value(fn.FreeVars[i]) {
							return false
						}
					default:
						return false
					}
				}
			}
		default:
			return false
		}
	}
	return true
}

// privateFreeVar: the captured variable behind fv can change, while the closure fv belongs to runs, only through
// that activation's own stores.  Conditions (checked on SSA): the variable is captured by exactly one closure
// creation site, that closure value is only deferred or called directly by its creator (never stored or passed, so no
// callee can re-enter it), the creator only loads/stores the variable, and inside the closure the variable's cell
// is only loaded from and stored to.
func privateFreeVar(fv *ssa.FreeVar) bool {
	fn := fv.Parent()
	par := fn.Parent()
	if par == nil {
		return false
	}
	idx := -1
	for i, x := range fn.FreeVars {
		if x == fv {
			idx = i
		}
	}
	if idx < 0 {
		return false
	}
	loadStoreOnly := func(v ssa.Value, skip ssa.Instruction) bool {
		if v.Referrers() == nil {
			return false
		}
		for _, r := range *v.Referrers() {
			if r == skip {
				continue
			}
			switch x := r.(type) {
			case *ssa.DebugRef:
			case *ssa.UnOp:
				if x.X != v {
					return false
				}
			case *ssa.Store:
				if x.Addr != v || x.Val == v {
					return false
				}
			default:
				return false
			}
		}
		return true
	}
	if !loadStoreOnly(fv, nil) {
		return false
	}
	var site *ssa.MakeClosure
	for _, b := range par.Blocks {
		for _, ins := range b.Instrs {
			mc, ok := ins.(*ssa.MakeClosure)
			if !ok || mc.Fn != ssa.Value(fn) {
				continue
			}
			if site != nil {
				return false
			}
			site = mc
		}
	}
	if site == nil || site.Referrers() == nil {
		return false
	}
	for _, r := range *site.Referrers() {
		switch x := r.(type) {
		case *ssa.DebugRef:
		case *ssa.Defer:
			if x.Call.Value != ssa.Value(site) {
				return false
			}
		case *ssa.Call:
			if x.Call.Value != ssa.Value(site) {
				return false
			}
		default:
			return false
		}
	}
	a, ok := site.Bindings[idx].(*ssa.Alloc)
	if !ok {
		return false
	}
	return loadStoreOnly(a, site)
}

// havocAllKeep: forget everything about the heap except the content of this activation's private locals.
func (ex *Exec) havocAllKeep(h *Heap, guard Term, loop ...*Loop) *Heap {
	return ex.havocAllKeepWith(h, guard, nil, loop...)
}

// havocAllKeepWith: setup configures the new generation (what is spared) before any of its keys is resolved.
func (ex *Exec) havocAllKeepWith(h *Heap, guard Term, setup func(nh *Heap), loop ...*Loop) *Heap {
	q := ex.q
	nh := q.havocAll(h, guard)
	if setup != nil {
		setup(nh)
	}
	for e := ex; e != nil; e = e.parentExec {
		var slices []ssa.Value
		for v := range e.vals {
			if _, isSl := v.Type().Underlying().(*types.Slice); isSl {
				slices = append(slices, v)
			}
		}
		sort.Slice(slices, func(i, j int) bool { return slices[i].Name() < slices[j].Name() })
		for _, v := range slices {
			ok, users := e.privateSlice(v)
			if !ok {
				continue
			}
			written := false
			if e == ex && len(loop) > 0 && loop[0] != nil {
				for _, u := range users {
					if loop[0].body[u.Block()] {
						written = true // the loop body itself writes the block: havoced with the loop
					}
				}
			} else if e != ex && len(loop) > 0 && loop[0] != nil {
				written = true
			}
			if written {
				continue
			}
			st := v.Type().Underlying().(*types.Slice)
			key := e.memKey(st.Elem())
			b := slBase(e.vals[v])
			q.heapSet(nh, key, store(q.heapGet(nh, key), b, sel(q.heapGet(h, key), b)))
		}
		for i, fv := range e.fn.FreeVars {
			if i < len(e.freeVars) && privateFreeVar(fv) {
				et := fv.Type().(*types.Pointer).Elem()
				ref := e.freeVars[i]
				func() {
					defer func() { recover() }()
					e.copyObject(ref, et, h, nh)
				}()
			}
		}
		for v, ref := range e.vals {
			a, isAlloc := v.(*ssa.Alloc)
			if !isAlloc || !(privateAlloc(a) || readOnlyCaptured(a)) {
				if isAlloc && os.Getenv("GOVC_DEBUG_PRIV") != "" {
					fmt.Fprintf(os.Stderr, "not kept: %s %s in %s\n", a.Name(), a.Comment, a.Parent().Name())
				}
				continue
			}
			if e == ex && len(loop) > 0 && loop[0] != nil && allocWrittenIn(a, loop[0]) {
				continue // the loop body itself stores into the object: havoced with the loop
			}
			et := a.Type().(*types.Pointer).Elem()
			func() {
				defer func() { recover() }()
				e.copyObject(ref, et, h, nh)
			}()
		}
	}
	return nh
}

// allocWrittenIn: some instruction of the loop body stores into the object (through a field or element address).
func allocWrittenIn(a *ssa.Alloc, l *Loop) bool {
	var w func(v ssa.Value, depth int) bool
	w = func(v ssa.Value, depth int) bool {
		if depth > 6 || v.Referrers() == nil {
			return false
		}
		for _, r := range *v.Referrers() {
			switch x := r.(type) {
			case *ssa.Store:
				if x.Addr == v && l.body[x.Block()] {
					return true
				}
			case *ssa.FieldAddr:
				if w(x, depth+1) {
					return true
				}
			case *ssa.IndexAddr:
				if w(x, depth+1) {
					return true
				}
			}
		}
		return false
	}
	if l.body[a.Block()] {
		return true // allocated inside the loop: a different object in every iteration
	}
	return w(a, 0)
}

// copyObject copies the memory content of the object of type t at ref from heap src to heap dst.
func (ex *Exec) copyObject(ref Term, t types.Type, src, dst *Heap) {
	q := ex.q
	switch u := t.Underlying().(type) {
	case *types.Struct:
		for i := 0; i < u.NumFields(); i++ {
			l := ex.fieldLoc(ref, t, i, nil)
			q.heapSet(dst, l.key, store(q.heapGet(dst, l.key), l.base, sel(q.heapGet(src, l.key), l.base)))
		}
	case *types.Array:
		key := ex.memKey(u.Elem())
		q.heapSet(dst, key, store(q.heapGet(dst, key), ref, sel(q.heapGet(src, key), ref)))
	default:
		s := q.so.sortOf(t)
		key := ex.regKey("C:"+s, arrSort(sInt, s))
		q.heapSet(dst, key, store(q.heapGet(dst, key), ref, sel(q.heapGet(src, key), ref)))
	}
}

// sizeOfType: bytes occupied by one value of type t (amd64).
func sizeOfType(t types.Type) int64 {
	switch u := t.Underlying().(type) {
	case *types.Basic:
		switch u.Kind() {
		case types.Bool, types.Int8, types.Uint8:
			return 1
		case types.Int16, types.Uint16:
			return 2
		case types.Int32, types.Uint32, types.Float32:
			return 4
		case types.String:
			return 16
		}
		return 8
	case *types.Slice:
		return 24
	case *types.Interface:
		return 16
	case *types.Struct:
		var n int64
		for i := 0; i < u.NumFields(); i++ {
			n += sizeOfType(u.Field(i).Type())
		}
		return n
	case *types.Array:
		return u.Len() * sizeOfType(u.Elem())
	}
	return 8
}

// allocGuard (property C09 only): an allocation whose element count is a program value must be small or within
// the memory budget established by a passed guard (object.MustBeOk / SizeOk).
func (ex *Exec) allocGuard(reach Term, count Term, elem types.Type, at ssa.Instruction, what string) {
	if !ex.q.propActive("C09") || ex.skipAlloc || !ex.guardsAllocs() {
		return
	}
	if isAtom(count.S) && !strings.ContainsAny(count.S, "!_") {
		return // literal size
	}
	ex.q.declFun("ghost_membudget", "() Int")
	bytes := app(sInt, "*", count, tInt(sizeOfType(elem)))
	goal := or(le(bytes, tInt(4096+64)), lt(bytes, add(Term{"ghost_membudget", sInt}, tInt(64))))
	ex.q.oblige(ex.obName("guard.alloc"), "guard.alloc", reach, goal, ex.pos(at), what+": allocation size is a program value and must be covered by the memory guard (<= 4 KiB or < budget)")
}
