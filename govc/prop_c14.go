package main

// C14: saved state loads back to the same state.
// Structural core (SSA audits of the real SaveGlobals / Inspect code, for every state):
//   - SaveGlobals writes to its writer only through fmt.Fprintf calls whose constant formats are "%s\n" and
//     "%s=%s\n": one terminated line per binding, provided the formatted strings contain no newline;
//   - the value string whose length is compared with the limit is the very value handed to Fprintf, the write sits on
//     the not-too-long branch, and the function slices no string: over-long values are skipped, never truncated;
//   - the keys are sorted (slices.Sort) before anything is written: the file is a function of the bindings;
//   - String.Inspect is strconv.Quote of the value (no raw newline or quote can appear in a saved string).
// That the saved text parses and evaluates back to an equal value of the same type (and functions to equally behaving
// functions) goes through printer, lexer, parser and evaluator: bounded stand-in.

import (
	"fmt"
	"go/constant"
	"strings"

	"golang.org/x/tools/go/ssa"
)

func init() { propExtras["C14"] = c14Extras }

func c14Extras(cc *CheckCtx) {
	p := cc.P
	var sg, strInspect *ssa.Function
	for _, f := range p.allFuncs("object") {
		switch funcKey(f) {
		case "grol.io/grol/object.(*Environment).SaveGlobals":
			sg = f
		case "grol.io/grol/object.(String).Inspect":
			strInspect = f
		}
	}
	if sg == nil {
		cc.audit("savefile-format", false, "(*Environment).SaveGlobals not found (renamed?)", "")
	} else {
		to := sg.Params[1]
		var formats []string
		okFormats, okWrites, noSlicing := true, true, true
		var fprintfs []*ssa.Call
		where := ""
		for _, b := range sg.Blocks {
			for _, ins := range b.Instrs {
				switch x := ins.(type) {
				case *ssa.Slice:
					if bt := x.X.Type().Underlying().String(); bt == "string" {
						noSlicing = false
						where = p.posOf(ins)
					}
				case *ssa.Call:
					usesWriter := false
					for _, a := range x.Call.Args {
						if a == ssa.Value(to) {
							usesWriter = true
						}
						if mi, ok := a.(*ssa.MakeInterface); ok && mi.X == ssa.Value(to) {
							usesWriter = true
						}
					}
					if x.Call.IsInvoke() && x.Call.Value == ssa.Value(to) {
						usesWriter = true
					}
					if !usesWriter {
						continue
					}
					callee := staticCallee(&x.Call)
					if callee == nil || calleePkgPath(callee) != "fmt" || callee.Name() != "Fprintf" {
						okWrites = false
						where = p.posOf(ins)
						continue
					}
					fprintfs = append(fprintfs, x)
					c, isConst := x.Call.Args[1].(*ssa.Const)
					if !isConst || c.Value == nil || c.Value.Kind() != constant.String {
						okFormats = false
						where = p.posOf(ins)
						continue
					}
					f := constant.StringVal(c.Value)
					formats = append(formats, f)
					if (f != "%s\n" && f != "%s=%s\n") || strings.Count(f, "\n") != 1 {
						okFormats = false
						where = p.posOf(ins)
					}
				}
			}
		}
		cc.audit("savefile-writes-only-fprintf", okWrites && len(fprintfs) > 0, fmt.Sprintf("SaveGlobals writes to its writer only through fmt.Fprintf (%d call(s))", len(fprintfs)), where)
		cc.audit("savefile-one-line-formats", okFormats && len(formats) == 2, fmt.Sprintf("the Fprintf formats are constant and each ends in exactly one newline: %q", formats), where)
		cc.audit("savefile-no-truncation", noSlicing, "SaveGlobals contains no string slicing: a value is written whole or not at all", where)
		// the %s=%s write is on the false branch of `len(val) > maxValueLen`, for the same val
		okSkip := false
		for _, c := range fprintfs {
			k, _ := c.Call.Args[1].(*ssa.Const)
			if k == nil || constant.StringVal(k.Value) != "%s=%s\n" {
				continue
			}
			// the write block may be entered only over the false edge of `maxValueLen > 0` (no limit configured) or of
			// `len(val) > maxValueLen` for the very string that is written
			blk := c.Block()
			boxed := map[ssa.Value]bool{}
			for _, ins := range blk.Instrs {
				if mi, ok := ins.(*ssa.MakeInterface); ok {
					boxed[mi.X] = true
				}
			}
			guarded := len(blk.Preds) > 0
			for _, pr := range blk.Preds {
				iff, ok := pr.Instrs[len(pr.Instrs)-1].(*ssa.If)
				if !ok || len(pr.Succs) != 2 || pr.Succs[1] != blk || pr.Succs[0] == blk {
					guarded = false
					continue
				}
				bo, ok := iff.Cond.(*ssa.BinOp)
				if !ok || bo.Op.String() != ">" {
					guarded = false
					continue
				}
				if prm, isParam := bo.X.(*ssa.Parameter); isParam && prm.Name() == "maxValueLen" {
					continue // no limit
				}
				lenCall, ok := bo.X.(*ssa.Call)
				if !ok {
					guarded = false
					continue
				}
				bi, ok := lenCall.Call.Value.(*ssa.Builtin)
				lim, isParam := bo.Y.(*ssa.Parameter)
				if !ok || bi.Name() != "len" || !isParam || lim.Name() != "maxValueLen" || !boxed[lenCall.Call.Args[0]] {
					guarded = false
				}
			}
			if guarded {
				okSkip = true
			}
		}
		cc.audit("savefile-skip-over-long", okSkip, "the name=value write is only reached when len(val) > maxValueLen is false, for the very string that is written", "")
		// no binding is left out for any other reason: every branch of SaveGlobals is one of the known ones (loop
		// conditions, the constant-name test, function / named function, the size limit, write errors)
		{
			var unknown []string
			nIf := 0
			for _, b := range sg.Blocks {
				for _, ins := range b.Instrs {
					iff, ok := ins.(*ssa.If)
					if !ok {
						continue
					}
					nIf++
					known := false
					switch c := iff.Cond.(type) {
					case *ssa.BinOp:
						_, yNil := c.Y.(*ssa.Const)
						switch c.Op.String() {
						case "!=", "==":
							known = yNil // against nil / a constant (outer scope, function name, error, type tag)
						case "<":
							known = true // index loop over the sorted keys
						case ">":
							if prm, isParam := c.X.(*ssa.Parameter); isParam && prm.Name() == "maxValueLen" {
								known = true
							}
							if prm, isParam := c.Y.(*ssa.Parameter); isParam && prm.Name() == "maxValueLen" {
								known = true
							}
						}
					case *ssa.Extract:
						_, known = c.Tuple.(*ssa.Next) // range over the store
					case *ssa.Call:
						if callee := staticCallee(&c.Call); callee != nil && callee.Name() == "isConstantAndExtraIdentifier" {
							known = true
						}
					}
					if !known {
						unknown = append(unknown, iff.Cond.String()+" at "+p.posOf(iff))
					}
				}
			}
			cc.audit("savefile-skips-nothing-else", len(unknown) == 0 && nIf >= 6, fmt.Sprintf("the %d branches of SaveGlobals are loop conditions, the built-in constant test, function / named function, the size limit and write errors: no other condition can leave a binding out; others: %v", nIf, unknown), where)
		}
		// sorted keys
		okSort := false
		for _, b := range sg.Blocks {
			for _, ins := range b.Instrs {
				if c, ok := ins.(*ssa.Call); ok {
					if callee := staticCallee(&c.Call); callee != nil && strings.HasPrefix(callee.Name(), "Sort") && calleePkgPath(callee) == "slices" {
						okSort = true
						for _, fp := range fprintfs {
							if !b.Dominates(fp.Block()) {
								okSort = false
							}
						}
					}
				}
			}
		}
		cc.audit("savefile-sorted", okSort, "slices.Sort of the keys dominates every write: the file is determined by the set of bindings", "")
	}
	if strInspect == nil {
		cc.audit("strings-quoted", false, "(String).Inspect not found (renamed?)", "")
	} else {
		ok := false
		for _, b := range strInspect.Blocks {
			for _, ins := range b.Instrs {
				if r, isRet := ins.(*ssa.Return); isRet && len(r.Results) == 1 {
					if c, isCall := r.Results[0].(*ssa.Call); isCall {
						if callee := staticCallee(&c.Call); callee != nil && calleePkgPath(callee) == "strconv" && callee.Name() == "Quote" {
							ok = true
						}
					}
				}
			}
		}
		cc.audit("strings-quoted", ok, "(String).Inspect returns strconv.Quote of the value: a saved string contains no raw newline or unescaped quote", "")
	}
	// functions are saved through the printer: what the formatter prints must parse back to the same program
	// (the round-trip corpus of C02, which is where a wrongly dropped parenthesis in a function body shows)
	cc.runBounded(BoundedSpec{Name: "printer-roundtrip", PkgDir: "repl", File: "c02_format_test.go", Test: "TestVerifBoundedRoundTrip", TimeoutS: 300,
		Contract: "function bodies are saved through the printer: for every accepted text of the C02 corpus the normal and the compact output re-parse to a structurally identical program"})
	cc.runBounded(BoundedSpec{Name: "save-load-roundtrip", PkgDir: "repl", File: "c14_saveload_test.go", Test: "TestVerifBoundedSaveLoad", TimeoutS: 120,
		Contract: "every saved data binding reloads (whole and line by line) with the same type and an equal value, functions behave the same, one line per binding, re-saving gives the same file, over-long values are skipped"})
	cc.Assume = append(cc.Assume,
		"C14: fmt.Fprintf writes exactly the formatted text; strconv.Quote / FormatInt / FormatFloat produce newline-free text (library behaviour, not modelled)",
		"C14: that the printed form of a value parses and evaluates back to an equal value of the same type is covered by the bounded stand-in only",
		"C14: Inspect of containers and functions contains no newline is covered by the bounded stand-in only (compact printing)")
}
