package main

// C10: a failed input leaves no trace in the session.
// Deductive part (contracts tagged C10 in eval/ and repl/verif_contracts.go): the frame and regs clauses of the
// evaluator family (normal-return paths, which include every language error, timeout error and arity error), and the
// contract of repl.EvalOne's recovery handler (recovered panics).  The history-level statement is covered by a bounded
// stand-in.

func init() { propExtras["C10"] = c10Extras }

func c10Extras(cc *CheckCtx) {
	cc.runBounded(BoundedSpec{Name: "session-histories", PkgDir: "repl", File: "c10_session_test.go", Test: "TestVerifBoundedSession", TimeoutS: 300,
		Contract: "outputs and errors of a session's succeeding inputs are unchanged by inserted side-effect-free failing inputs"})
	cc.Assume = append(cc.Assume,
		"C10: Go's panic unwinding is not modelled: the proof covers what the recovery handler establishes (scope, depth, writer) and the deferred register release; state written before a panic by the failing input itself is outside 'fails before completing any side effect'",
		"C10: (*State).quote (unquote callbacks through ast.Modify) and extension callbacks are assumed to preserve the frame",
		"C10: bindings, memoization cache and macro store being untouched by a failing input is covered only by the bounded session stand-in")
}
