package main

func init() {
	propExtras["C20"] = func(cc *CheckCtx) {
		cc.runBounded(BoundedSpec{Name: "trie-set", PkgDir: "trie", File: "c20_trie_test.go", Test: "TestVerifBoundedTrieSet",
			Contract: "set-level contract of trie.Insert/Contains/PrefixAll: membership exactly the inserted non-empty words; PrefixAll = matching words, once each, in byte order; reported length = LCP length"})
		cc.Assume = append(cc.Assume, "C20: termination of the recursion in (*Trie).AllBytes and of its byte loop is not proved (needs the whole-tree invariant children[max] != nil and acyclicity); set-level semantics beyond the stated bound is not decided")
	}
}
