package main

// Q: one verification unit's SMT context (declarations + guarded assumptions in program order,
// obligations snapshotting the prefix they may use), plus the versioned heap.

import (
	"fmt"
	"go/token"
	"strings"
)

type Oblig struct {
	Name    string // fn/kind#n[.label]
	Fn      string
	Kind    string
	Guard   Term
	Goal    Term
	UpTo    int // number of q.lines usable
	Pos     token.Position
	Props   []string
	Comment string
	// results
	Status string // proved | failed | unknown
	Solver string
	Secs   float64
	Model  string
	Expect string // "unsat" normally; "sat" for cover obligations
}

type Q struct {
	P             *Prog
	so            *Sorts
	lines         []string
	nfresh        int
	obligs        []*Oblig
	notes         []string
	strlits       map[string]Term
	litOf         map[string]string
	declared      map[string]bool
	ngen          int
	fnName        string
	props         []string
	unsupported   []string
	noOblig       int // >0: suppress obligations (spec evaluation / pure mode)
	pureDepth     int
	extraDecl     []string // uninterpreted function declarations (go before lines)
	extraSeen     map[string]bool
	modelVars     []string // symbols whose values we want in counterexamples
	nilChecked    map[string]bool
	needStrCmp    bool
	assumeGlobals func(h *Heap)
	curProp       string // property being checked ("" = all clauses apply)
}

// propActive: a clause / obligation family scoped to property p applies in this run.
func (q *Q) propActive(p string) bool {
	if p == "" {
		return true
	}
	if p == "assumed" {
		return false // clause is assumed at call sites only, never checked
	}
	// "@C16,C08": active when checking any of the listed properties
	for _, one := range strings.Split(p, ",") {
		if q.curProp == "" {
			if hasProp(q.props, one) {
				return true
			}
		} else if q.curProp == one {
			return true
		}
	}
	return false
}

func newQ(p *Prog, fnName string, bv bool) *Q {
	return &Q{P: p, so: newSorts(bv), strlits: map[string]Term{}, litOf: map[string]string{}, declared: map[string]bool{}, fnName: fnName, extraSeen: map[string]bool{}, nilChecked: map[string]bool{}}
}

func (q *Q) note(format string, a ...any) {
	s := fmt.Sprintf(format, a...)
	for _, n := range q.notes {
		if n == s {
			return
		}
	}
	q.notes = append(q.notes, s)
}

func (q *Q) fresh(hint, sort string) Term {
	q.nfresh++
	name := fmt.Sprintf("%s!%d", sanitize(hint), q.nfresh)
	q.lines = append(q.lines, fmt.Sprintf("(declare-const %s %s)", name, sort))
	return Term{name, sort}
}

func (q *Q) assume(t Term) {
	if t.S == "true" {
		return
	}
	q.lines = append(q.lines, "(assert "+t.S+")")
}

func (q *Q) declFun(name, sig string) {
	if q.extraSeen[name] {
		return
	}
	q.extraSeen[name] = true
	q.extraDecl = append(q.extraDecl, fmt.Sprintf("(declare-fun %s %s)", name, sig))
}

func isAtom(s string) bool {
	return !strings.ContainsAny(s, " (")
}

// def names a term (keeps queries small); atoms are returned unchanged.
func (q *Q) def(hint string, t Term) Term {
	if q.pureDepth > 0 || isAtom(t.S) || len(t.S) < 24 {
		return t
	}
	v := q.fresh(hint, t.Sort)
	q.lines = append(q.lines, fmt.Sprintf("(assert (= %s %s))", v.S, t.S))
	if lit, ok := q.litOf[t.S]; ok {
		q.litOf[v.S] = lit
	}
	return v
}

func (q *Q) oblige(name, kind string, guard, goal Term, pos token.Position, comment string) *Oblig {
	if q.noOblig > 0 {
		return nil
	}
	if guard.S == "false" || goal.S == "true" {
		// trivially discharged; still counted
		o := &Oblig{Name: name, Fn: q.fnName, Kind: kind, Guard: guard, Goal: goal, UpTo: len(q.lines), Pos: pos, Props: q.props, Comment: comment, Status: "proved", Solver: "trivial", Expect: "unsat"}
		q.obligs = append(q.obligs, o)
		return o
	}
	o := &Oblig{Name: name, Fn: q.fnName, Kind: kind, Guard: guard, Goal: goal, UpTo: len(q.lines), Pos: pos, Props: q.props, Comment: comment, Expect: "unsat"}
	q.obligs = append(q.obligs, o)
	return o
}

func (q *Q) strLit(s string) Term {
	if t, ok := q.strlits[s]; ok {
		return t
	}
	q.nfresh++
	arr := fmt.Sprintf("strlit!%d", q.nfresh)
	q.lines = append(q.lines, fmt.Sprintf("(declare-const %s (Array Int Int))", arr))
	if len(s) <= 96 {
		for i := 0; i < len(s); i++ {
			q.lines = append(q.lines, fmt.Sprintf("(assert (= (select %s %d) %d))", arr, i, s[i]))
		}
	} else {
		q.note("string literal of length %d: only its length is modelled", len(s))
	}
	t := mkStr(Term{arr, arrSort(sInt, sInt)}, tInt(0), tInt(int64(len(s))))
	q.strlits[s] = t
	q.litOf[t.S] = s
	return t
}

// strEq builds Go string equality, expanding when one side is a literal.
func (q *Q) strEq(a, b Term) Term {
	if la, ok := q.litOf[a.S]; ok {
		if lb, ok2 := q.litOf[b.S]; ok2 {
			if la == lb {
				return tTrue
			}
			return tFalse
		}
		a, b = b, a
	}
	if lb, ok := q.litOf[b.S]; ok && len(lb) <= 96 {
		cs := []Term{eq(strLen(a), tInt(int64(len(lb))))}
		for i := 0; i < len(lb); i++ {
			cs = append(cs, eq(strAt(a, tInt(int64(i))), tInt(int64(lb[i]))))
		}
		return and(cs...)
	}
	return app(sBool, "str_eq", a, b)
}

// ---------- heap ----------

type Gen struct {
	id    int
	conds []Term
	subs  []*Heap
	// a havoc that spares some keys (ghost state, fields only package eval can write, ...): those keys
	// resolve through the heap before the havoc, whenever they are first used
	parent *Heap
	keep   func(key string) bool
	// keepOld: memory keys ("M:") of which only the blocks that existed before the havoc are spared (the havocing code
	// writes slice/array elements only in blocks it allocates itself)
	keepOld func(key string) bool
}

type Heap struct {
	m   map[string]Term
	gen *Gen
}

func (q *Q) newGen() *Gen { q.ngen++; return &Gen{id: q.ngen} }

func (q *Q) newHeap() *Heap { return &Heap{m: map[string]Term{}, gen: q.newGen()} }

func (h *Heap) clone() *Heap {
	m := make(map[string]Term, len(h.m))
	for k, v := range h.m {
		m[k] = v
	}
	return &Heap{m: m, gen: h.gen}
}

// heap key sorts are derivable from the key itself (recorded at first use).

func (q *Q) heapGet(h *Heap, key string) Term {
	if t, ok := h.m[key]; ok {
		return t
	}
	sort, ok := q.so.keySort[key]
	if !ok {
		panic("heap key without sort: " + key)
	}
	var t Term
	if h.gen.subs == nil && h.gen.parent != nil && h.gen.keep != nil && h.gen.keep(key) {
		t = q.heapGet(h.gen.parent, key)
		h.m[key] = t
		return t
	}
	if h.gen.subs == nil {
		name := fmt.Sprintf("h_%s_g%d", sanitize(key), h.gen.id)
		if !q.declared[name] {
			q.declared[name] = true
			q.lines = append(q.lines, fmt.Sprintf("(declare-const %s %s)", name, sort))
			if h.gen.parent != nil && h.gen.keepOld != nil && strings.HasPrefix(key, "M:") && h.gen.keepOld(key) {
				old := q.heapGet(h.gen.parent, key)
				a := q.heapGet(h.gen.parent, allocKey)
				q.lines = append(q.lines, fmt.Sprintf("(assert (forall ((b Int)) (! (=> (and (< b %s) (< (- (* 64 %s)) b)) (= (select %s b) (select %s b))) :pattern ((select %s b)))))",
					a.S, a.S, name, old.S, name))
			}
			if h.gen.parent != nil && h.gen.keepOld != nil && strings.HasPrefix(key, "F:") && strings.HasPrefix(sort, "(Array Int ") && h.gen.keepOld(key) {
				// fields of the objects that existed before the havoc are unchanged (only objects allocated by the
				// havocing code get this field written)
				old := q.heapGet(h.gen.parent, key)
				a := q.heapGet(h.gen.parent, allocKey)
				q.lines = append(q.lines, fmt.Sprintf("(assert (forall ((p Int)) (! (=> (and (< 0 p) (< p %s)) (= (select %s p) (select %s p))) :pattern ((select %s p)))))",
					a.S, name, old.S, name))
			}
		}
		t = Term{name, sort}
	} else {
		n := len(h.gen.subs)
		t = q.heapGet(h.gen.subs[n-1], key)
		for i := n - 2; i >= 0; i-- {
			t = ite(h.gen.conds[i], q.heapGet(h.gen.subs[i], key), t)
		}
		t = q.def("hm_"+key, t)
	}
	h.m[key] = t
	return t
}

func (q *Q) heapSet(h *Heap, key string, v Term) {
	h.m[key] = q.def("h_"+key, v)
}

func (q *Q) mergeHeaps(conds []Term, hs []*Heap) *Heap {
	if len(hs) == 1 {
		return hs[0].clone()
	}
	same := true
	for _, h := range hs[1:] {
		if h.gen != hs[0].gen {
			same = false
		}
	}
	keys := map[string]bool{}
	for _, h := range hs {
		for k := range h.m {
			keys[k] = true
		}
	}
	res := &Heap{m: map[string]Term{}}
	if same {
		res.gen = hs[0].gen
	} else {
		q.ngen++
		res.gen = &Gen{id: q.ngen, conds: conds, subs: hs}
	}
	for _, k := range sortedKeys(keys) {
		n := len(hs)
		t := q.heapGet(hs[n-1], k)
		for i := n - 2; i >= 0; i-- {
			t = ite(conds[i], q.heapGet(hs[i], k), t)
		}
		res.m[k] = q.def("hm_"+k, t)
	}
	return res
}

const allocKey = "$alloc"

// havocAll returns a heap about which nothing is known except alloc monotonicity.
func (q *Q) havocAll(h *Heap, guard Term) *Heap {
	nh := q.newHeap()
	q.assume(implies(guard, le(q.heapGet(h, allocKey), q.heapGet(nh, allocKey))))
	// ghost (specification-only) state changes only through contract clauses that name it
	nh.gen.parent = h.clone()
	nh.gen.keep = func(k string) bool { return strings.HasPrefix(k, "GH:") }
	if q.assumeGlobals != nil {
		q.assumeGlobals(nh)
	}
	return nh
}

// script renders the context.  variant "define": str_eq is a macro (good for models and simple goals);
// variant "axioms": str_eq is uninterpreted with triggered axioms (good inside other quantifiers).
func (q *Q) script(upTo int, variant string) string {
	var b strings.Builder
	if variant == "axioms" {
		b.WriteString(strings.Replace(prelude, ";;STREQ;;\n", streqAxioms, 1))
	} else {
		b.WriteString(strings.Replace(prelude, ";;STREQ;;\n", streqDefine, 1))
	}
	for _, d := range q.so.structDecl {
		b.WriteString(d)
		b.WriteByte('\n')
	}
	if q.needStrCmp {
		b.WriteString(strcmpAxioms)
	}
	for _, d := range q.extraDecl {
		b.WriteString(d)
		b.WriteByte('\n')
	}
	for _, l := range q.lines[:upTo] {
		b.WriteString(l)
		b.WriteByte('\n')
	}
	return b.String()
}
