package main

import (
	"bytes"
	"context"
	"os/exec"
	"strings"
	"sync"
	"time"
)

type solverSpec struct {
	name string
	argv []string
}

func solverList(timeoutS int) []solverSpec {
	ts := itoa(timeoutS)
	return []solverSpec{
		{"z3-new", []string{"z3-new", "-in", "-T:" + ts}},
		{"cvc5", []string{"cvc5", "--lang", "smt2", "--tlimit=" + itoa(timeoutS*1000), "--produce-models"}},
		{"z3", []string{"z3", "-in", "-T:" + ts}},
	}
}

func itoa(n int) string {
	if n == 0 {
		return "0"
	}
	s := ""
	neg := n < 0
	if neg {
		n = -n
	}
	for n > 0 {
		s = string(rune('0'+n%10)) + s
		n /= 10
	}
	if neg {
		s = "-" + s
	}
	return s
}

type solveOut struct {
	status string // sat unsat unknown timeout error
	out    string
	secs   float64
	solver string
}

func runSolver(sp solverSpec, script string, timeoutS int) solveOut {
	ctx, cancel := context.WithTimeout(context.Background(), time.Duration(timeoutS+2)*time.Second)
	defer cancel()
	cmd := exec.CommandContext(ctx, sp.argv[0], sp.argv[1:]...)
	cmd.Stdin = strings.NewReader(script)
	var out bytes.Buffer
	cmd.Stdout = &out
	cmd.Stderr = &out
	t0 := time.Now()
	_ = cmd.Run()
	secs := time.Since(t0).Seconds()
	s := out.String()
	first := strings.TrimSpace(s)
	if i := strings.IndexByte(first, '\n'); i >= 0 {
		first = first[:i]
	}
	st := "error"
	switch {
	case first == "sat", first == "unsat", first == "unknown":
		st = first
	case strings.Contains(first, "timeout") || ctx.Err() != nil:
		st = "timeout"
	}
	return solveOut{status: st, out: s, secs: secs, solver: sp.name}
}

func obligScript(q *Q, o *Oblig, model bool, variant string) string {
	var b strings.Builder
	b.WriteString(q.script(o.UpTo, variant))
	b.WriteString("(assert " + o.Guard.S + ")\n")
	if o.Expect != "sat" {
		b.WriteString("(assert (not " + o.Goal.S + "))\n")
	}
	b.WriteString("(check-sat)\n")
	if model {
		b.WriteString("(get-model)\n")
	}
	return b.String()
}

// cvc5 does not accept some z3-isms; adapt the script.
func forCvc5(s string) string {
	s = strings.Replace(s, "(set-option :produce-models true)\n", "", 1)
	return "(set-option :produce-models true)\n" + s
}

func solveOblig(q *Q, o *Oblig, timeoutS int) {
	if o.Status != "" {
		return
	}
	var tried []string
	type attempt struct {
		sp      solverSpec
		variant string
	}
	sl := solverList(timeoutS)
	usesStrEq := strings.Contains(o.Goal.S, "str_eq") || strings.Contains(o.Guard.S, "str_eq") || strings.Contains(strings.Join(q.lines[:o.UpTo], "\n"), "str_eq")
	var attempts []attempt
	hasQuant := strings.Contains(strings.Join(q.lines[:o.UpTo], "\n"), "(forall ")
	if o.Expect != "sat" && (hasQuant || usesStrEq) {
		// first, cheaply: with every quantified hypothesis dropped (fewer hypotheses: 'unsat' is still a proof)
		attempts = append(attempts, attempt{sl[0], "noquant"})
	}
	attempts = append(attempts, attempt{sl[0], "define"})
	if usesStrEq {
		attempts = append(attempts, attempt{sl[0], "axioms"})
	}
	attempts = append(attempts, attempt{sl[1], "define"})
	if usesStrEq {
		attempts = append(attempts, attempt{sl[1], "axioms"})
	}
	attempts = append(attempts, attempt{sl[2], "define"})
	if o.Expect == "sat" {
		attempts = attempts[:1] // reachability covers: one cheap attempt; 'unknown' is acceptable there
	}
	candidate := ""
	for _, at := range attempts {
		sp := at.sp
		sc := obligScript(q, o, true, at.variant)
		if at.variant == "noquant" {
			sc = stripQuantified(obligScript(q, o, true, "define"))
		}
		if sp.name == "cvc5" {
			sc = forCvc5(sc)
		}
		r := runSolver(sp, sc, timeoutS)
		o.Secs += r.secs
		tried = append(tried, sp.name+"/"+at.variant+":"+r.status)
		if o.Expect == "sat" {
			switch r.status {
			case "sat":
				o.Status, o.Solver = "proved", sp.name
				return
			case "unsat":
				o.Status, o.Solver = "failed", sp.name
				o.Model = "vacuous: the guard is unsatisfiable"
				return
			}
			continue
		}
		if at.variant == "noquant" {
			if r.status == "unsat" {
				o.Status, o.Solver = "proved", sp.name+"/noquant"
				return
			}
			if r.status == "sat" {
				candidate = r.out
			}
			continue
		}
		switch r.status {
		case "unsat":
			o.Status, o.Solver = "proved", sp.name
			return
		case "sat":
			o.Status, o.Solver = "failed", sp.name
			o.Model = r.out
			return
		}
		if r.status == "error" && o.Model == "" {
			o.Model = sp.name + " error: " + firstLines(r.out, 5)
		}
	}
	if o.Expect != "sat" && candidate != "" {
		o.Status, o.Solver = "failed", "z3-new/noquant(candidate model: quantified hypotheses dropped); "+strings.Join(tried, ",")
		o.Model = candidate
		return
	}
	if o.Expect == "sat" {
		// no solver refuted reachability; not a proof of reachability either
		o.Status, o.Solver = "proved", "none-refuted("+strings.Join(tried, ",")+")"
		return
	}
	o.Status = "unknown"
	o.Solver = strings.Join(tried, ",")
}

func firstLines(s string, n int) string {
	lines := strings.Split(s, "\n")
	if len(lines) > n {
		lines = lines[:n]
	}
	return strings.Join(lines, "\n")
}

// noRetry: obligations recorded as known findings (expected not to be proved): no second pass for them.
var noRetry = map[string]bool{}

type job struct {
	q *Q
	o *Oblig
}

func solveAll(results []*FnResult, timeoutS, workers int) {
	jobs := make(chan job)
	var wg sync.WaitGroup
	for i := 0; i < workers; i++ {
		wg.Add(1)
		go func() {
			defer wg.Done()
			for j := range jobs {
				solveOblig(j.q, j.o, timeoutS)
			}
		}()
	}
	for _, r := range results {
		for _, o := range r.Q.obligs {
			jobs <- job{r.Q, o}
		}
	}
	close(jobs)
	wg.Wait()
	// second pass: anything not proved is retried with little parallelism and a longer time limit, so that
	// machine load during the first pass cannot turn a provable obligation into an alarm
	var again []job
	for _, r := range results {
		for _, o := range r.Q.obligs {
			if o.Status != "proved" && o.Expect != "sat" && !noRetry[o.Name] {
				again = append(again, job{r.Q, o})
			}
		}
	}
	if len(again) == 0 || len(again) > 40 { // many failures: a broken tree, not machine load
		return
	}
	sem := make(chan struct{}, 4)
	var wg2 sync.WaitGroup
	for _, j := range again {
		wg2.Add(1)
		sem <- struct{}{}
		go func(j job) {
			defer wg2.Done()
			defer func() { <-sem }()
			prev := *j.o
			j.o.Status, j.o.Solver, j.o.Model = "", "", ""
			solveOblig(j.q, j.o, timeoutS*3)
			if j.o.Status != "proved" {
				// keep the more informative of the two outcomes
				if prev.Status == "failed" && j.o.Status != "failed" {
					secs := j.o.Secs
					*j.o = prev
					j.o.Secs += secs
				}
			} else {
				j.o.Solver += " (second pass)"
			}
		}(j)
	}
	wg2.Wait()
	// third pass: a handful of obligations still open (a heavily loaded machine, or a genuine failure): one at a time,
	// four times the time limit, so that only a real failure survives
	var last []job
	for _, j := range again {
		if j.o.Status != "proved" {
			last = append(last, j)
		}
	}
	if len(last) == 0 || len(last) > 5 {
		return
	}
	for _, j := range last {
		prev := *j.o
		j.o.Status, j.o.Solver, j.o.Model = "", "", ""
		solveOblig(j.q, j.o, timeoutS*4)
		if j.o.Status != "proved" {
			if prev.Status == "failed" && j.o.Status != "failed" {
				secs := j.o.Secs
				*j.o = prev
				j.o.Secs += secs
			}
		} else {
			j.o.Solver += " (third pass)"
		}
	}
}

// stripQuantified removes every top-level command that contains a quantifier (weakening the hypotheses),
// except the goal itself (the last assert before check-sat), which is kept.
func stripQuantified(script string) string {
	lines := strings.Split(script, "\n")
	last := -1
	for i, l := range lines {
		if strings.HasPrefix(l, "(assert ") {
			last = i
		}
	}
	var out []string
	for i, l := range lines {
		if i != last && (strings.Contains(l, "(forall ") || strings.Contains(l, "(exists ")) {
			if strings.HasPrefix(l, "(define-fun str_eq") {
				out = append(out, "(declare-fun str_eq (Str Str) Bool)")
			}
			continue
		}
		out = append(out, l)
	}
	return strings.Join(out, "\n")
}
