package main

// C04: automatic memoization is unobservable.
// Deductive part (contracts tagged C04): the guard discipline of the cache.
//   - applyFunction stores a result only when the callee scope's miss counter did not move during the body (no lookup
//     outside the callee's own scope, no non-deterministic extension) and the result is not an error (preconditions
//     on the call to Cache.Set), and it counts every call that could not be cached in the caller's scope (propagate);
//   - the miss counter of every scope never decreases across any evaluator step (missmono on the evaluator family and on
//     the Environment setters/getters), so a later comparison `after == before` cannot be fooled;
//   - applyExtension counts a call to an extension marked DontCache before running it.
// Whether "no outside lookup, no flagged extension, same arguments" implies "same result and output" is the
// determinism of evaluation: a whole-program relation, covered by a bounded differential stand-in with the cache
// switched off through the verif hook eval.VerifNoCache.

func init() { propExtras["C04"] = c04Extras }

func c04Extras(cc *CheckCtx) {
	cc.runBounded(BoundedSpec{Name: "cache-onoff", PkgDir: "repl", File: "c04_memo_test.go", Test: "TestVerifBoundedMemo", TimeoutS: 600,
		Contract: "generated programs print the same output and give the same results and errors with the function-result cache on and off"})
	cc.Assume = append(cc.Assume,
		"C04: which extensions must be marked DontCache (random, time, IO) is not audited; the contract only proves that a marked extension is counted",
		"C04: Cache.Get/Set key construction (same key for equal function text and hashable arguments) is not under contract; map semantics of Go are trusted",
		"C04: the hook eval.VerifNoCache (build tag verif) is the 'cache disabled' configuration of the bounded stand-in; without the tag the cache cannot be switched off",
		"C04: determinism of a call given equal arguments and no counted lookup is not proved: bounded differential stand-in only")
}
