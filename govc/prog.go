package main

// Program loading and whole-program helpers.

import (
	"fmt"
	"go/token"
	"go/types"
	"math"
	"os"
	"sort"
	"strings"

	"golang.org/x/tools/go/packages"
	"golang.org/x/tools/go/ssa"
	"golang.org/x/tools/go/ssa/ssautil"
)

type Prog struct {
	repo          string
	fset          *token.FileSet
	prog          *ssa.Program
	pkgs          []*ssa.Package
	ppkgs         []*packages.Package
	contracts     *ContractSet
	loopCache     map[*ssa.Function]*LoopInfo
	globals       map[*ssa.Global]int
	funcIDs       map[*ssa.Function]int
	implCache     map[string][]types.Type
	allNamed      []types.Type
	byKey         map[string]*ssa.Function
	boxedPtr      []types.Type
	curProp       string
	usedContracts map[string]bool // verified contracts (with a body) applied at call sites during this run
	dynCache      map[*ssa.Function]bool
	dynSet        map[*ssa.Function]bool
	writers       map[string][]*ssa.Function
	reachCache    map[*ssa.Function]map[*ssa.Function]bool
}

func mathFloat64bits(f float64) uint64 { return math.Float64bits(f) }

func loadProg(repo string, contractsDir string) (*Prog, error) {
	mode := packages.NeedName | packages.NeedFiles | packages.NeedCompiledGoFiles | packages.NeedImports | packages.NeedTypes |
		packages.NeedTypesSizes | packages.NeedSyntax | packages.NeedTypesInfo | packages.NeedDeps
	if os.Getenv("GOVC_LOADALL") == "" {
		mode &^= packages.NeedDeps
	}
	cfg := &packages.Config{Mode: mode, Dir: repo, BuildFlags: []string{"-tags=verif"}, Tests: false}
	pkgs, err := packages.Load(cfg, "./...")
	if err != nil {
		return nil, err
	}
	nerr := 0
	packages.Visit(pkgs, nil, func(p *packages.Package) {
		for _, e := range p.Errors {
			fmt.Fprintln(os.Stderr, "load error:", e)
			nerr++
		}
	})
	if nerr > 0 {
		return nil, fmt.Errorf("%d package load errors", nerr)
	}
	var prog *ssa.Program
	var spkgs []*ssa.Package
	if os.Getenv("GOVC_LOADALL") == "" {
		prog, spkgs = ssautil.Packages(pkgs, ssa.GlobalDebug|ssa.InstantiateGenerics)
	} else {
		prog, spkgs = ssautil.AllPackages(pkgs, ssa.GlobalDebug|ssa.InstantiateGenerics)
	}
	prog.Build()
	p := &Prog{repo: repo, fset: prog.Fset, prog: prog, ppkgs: pkgs, loopCache: map[*ssa.Function]*LoopInfo{},
		globals: map[*ssa.Global]int{}, funcIDs: map[*ssa.Function]int{}, implCache: map[string][]types.Type{}, byKey: map[string]*ssa.Function{}, dynCache: map[*ssa.Function]bool{}}
	for _, sp := range spkgs {
		if sp != nil {
			p.pkgs = append(p.pkgs, sp)
		}
	}
	cs, err := loadContracts(repo, contractsDir)
	if err != nil {
		return nil, err
	}
	p.contracts = cs
	// index functions by key, collect named types of repo packages (deterministic order)
	for _, sp := range p.prog.AllPackages() {
		if !strings.HasPrefix(sp.Pkg.Path(), "grol.io/grol") {
			continue
		}
		names := make([]string, 0, len(sp.Members))
		for n := range sp.Members {
			names = append(names, n)
		}
		sort.Strings(names)
		for _, n := range names {
			switch m := sp.Members[n].(type) {
			case *ssa.Function:
				p.indexFunc(m)
			case *ssa.Type:
				t := m.Type()
				p.allNamed = append(p.allNamed, t)
				for _, tt := range []types.Type{t, types.NewPointer(t)} {
					ms := p.prog.MethodSets.MethodSet(tt)
					for i := 0; i < ms.Len(); i++ {
						if f := p.prog.MethodValue(ms.At(i)); f != nil {
							p.indexFunc(f)
						}
					}
				}
			}
		}
	}
	return p, nil
}

func (p *Prog) indexFunc(f *ssa.Function) {
	if f.Synthetic != "" && !strings.HasPrefix(f.Synthetic, "instance") {
		// wrappers etc: not indexed under a key
		return
	}
	k := funcKey(f)
	if _, ok := p.byKey[k]; !ok {
		p.byKey[k] = f
	}
	for _, a := range f.AnonFuncs {
		p.indexFunc(a)
	}
}

func funcKey(f *ssa.Function) string {
	pkg := ""
	if f.Pkg != nil {
		pkg = f.Pkg.Pkg.Path()
	} else if f.Object() != nil && f.Object().Pkg() != nil {
		pkg = f.Object().Pkg().Path()
	}
	if recv := f.Signature.Recv(); recv != nil {
		rt := recv.Type()
		ptr := ""
		if pt, ok := rt.(*types.Pointer); ok {
			rt = pt.Elem()
			ptr = "*"
		}
		name := rt.String()
		if n, ok := rt.(*types.Named); ok {
			name = n.Obj().Name()
			if n.Obj().Pkg() != nil {
				pkg = n.Obj().Pkg().Path()
			}
		}
		return fmt.Sprintf("%s.(%s%s).%s", pkg, ptr, name, f.Name())
	}
	if pkg == "" {
		return f.String()
	}
	return pkg + "." + f.Name()
}

func (p *Prog) loops(f *ssa.Function) *LoopInfo {
	if li, ok := p.loopCache[f]; ok {
		return li
	}
	li := computeLoops(f)
	p.loopCache[f] = li
	return li
}

func (p *Prog) inRepo(f *ssa.Function) bool {
	pk := f.Pkg
	if pk == nil && f.Parent() != nil {
		pk = f.Parent().Pkg
	}
	if pk == nil {
		if f.Object() != nil && f.Object().Pkg() != nil {
			return strings.HasPrefix(f.Object().Pkg().Path(), "grol.io/grol")
		}
		return false
	}
	return strings.HasPrefix(pk.Pkg.Path(), "grol.io/grol")
}

var purePkgs = map[string]bool{"strings": true, "strconv": true, "bytes": true, "math": true, "unicode": true, "unicode/utf8": true,
	"cmp": true, "errors": true, "math/bits": true, "slices": false, "fmt": false, "fortio.org/log": true, "fortio.org/safecast": true, "time": true,
	"context": true, "sort": false, "math/rand/v2": true}

// externPure: external functions assumed not to write any memory visible to grol code.
func (p *Prog) externPure(f *ssa.Function) bool {
	path := ""
	if f.Pkg != nil {
		path = f.Pkg.Pkg.Path()
	} else if f.Object() != nil && f.Object().Pkg() != nil {
		path = f.Object().Pkg().Path()
	}
	if purePkgs[path] {
		// strings.Builder methods write their receiver
		if strings.Contains(f.String(), "Builder") || strings.Contains(f.String(), "Buffer") {
			return false
		}
		return true
	}
	if path == "fmt" && (f.Name() == "Sprintf" || f.Name() == "Sprint" || f.Name() == "Errorf" || f.Name() == "Sprintln") {
		return true
	}
	return false
}

func (p *Prog) globalRef(g *ssa.Global) Term {
	n, ok := p.globals[g]
	if !ok {
		n = len(p.globals) + 1
		p.globals[g] = n
	}
	return tInt(int64(n))
}

// function values are opaque references (negative ids, never equal to data refs or nil)
func (p *Prog) funcRef(q *Q, f *ssa.Function) Term {
	n, ok := p.funcIDs[f]
	if !ok {
		n = len(p.funcIDs) + 1
		p.funcIDs[f] = n
	}
	return tInt(int64(1_000_000_000 + n))
}

func (p *Prog) closureRef(q *Q, c *ssa.MakeClosure) Term {
	v := q.fresh("closure", sInt)
	q.assume(lt(tInt(2_000_000_000), v))
	return v
}

// implementers returns the concrete named types (T or *T) of repo packages whose method set satisfies it.
func (p *Prog) implementers(it types.Type) []types.Type {
	key := it.String()
	if r, ok := p.implCache[key]; ok {
		return r
	}
	iface, ok := it.Underlying().(*types.Interface)
	var out []types.Type
	if ok {
		for _, t := range p.allNamed {
			if _, isI := t.Underlying().(*types.Interface); isI {
				continue
			}
			if types.Implements(t, iface) {
				out = append(out, t)
			} else if pt := types.NewPointer(t); types.Implements(pt, iface) {
				out = append(out, pt)
			}
		}
	}
	// pointer types *T (T implementing by value) that the program actually boxes into interfaces
	seen := map[string]bool{}
	for _, t := range out {
		seen[t.String()] = true
	}
	for _, t := range p.boxedPointerTypes() {
		if ok && !seen[t.String()] && types.Implements(t, iface) {
			seen[t.String()] = true
			out = append(out, t)
		}
	}
	p.implCache[key] = out
	return out
}

func (p *Prog) lookupMethod(t types.Type, name string) *ssa.Function {
	ms := p.prog.MethodSets.MethodSet(t)
	for i := 0; i < ms.Len(); i++ {
		if ms.At(i).Obj().Name() == name {
			return p.prog.MethodValue(ms.At(i))
		}
	}
	if _, isPtr := t.(*types.Pointer); !isPtr {
		ms = p.prog.MethodSets.MethodSet(types.NewPointer(t))
		for i := 0; i < ms.Len(); i++ {
			if ms.At(i).Obj().Name() == name {
				return p.prog.MethodValue(ms.At(i))
			}
		}
	}
	return nil
}

func (p *Prog) invokeTargets(cc *ssa.CallCommon) []*ssa.Function {
	var out []*ssa.Function
	for _, t := range p.implementers(cc.Value.Type()) {
		if f := p.lookupMethod(t, cc.Method.Name()); f != nil {
			out = append(out, f)
		}
	}
	return out
}

func (p *Prog) ifaceStub(cc *ssa.CallCommon, f *ssa.Function) *ssa.Function { return f }

// isConstMethod: body has no stores, map updates, allocations or calls (other than to such functions).
func (p *Prog) isConstMethod(f *ssa.Function) bool {
	return p.isConstFn(f, map[*ssa.Function]bool{})
}

func (p *Prog) isConstFn(f *ssa.Function, seen map[*ssa.Function]bool) bool {
	if seen[f] {
		return false
	}
	seen[f] = true
	if len(f.Blocks) == 0 {
		return false
	}
	for _, b := range f.Blocks {
		for _, ins := range b.Instrs {
			switch x := ins.(type) {
			case *ssa.Store, *ssa.MapUpdate, *ssa.MakeSlice, *ssa.MakeMap, *ssa.Go, *ssa.Defer, *ssa.Panic, *ssa.MakeClosure:
				return false
			case *ssa.Alloc:
				return false
			case *ssa.Call:
				if x.Call.IsInvoke() {
					return false
				}
				switch c := x.Call.Value.(type) {
				case *ssa.Builtin:
					if c.Name() != "len" && c.Name() != "cap" && c.Name() != "min" && c.Name() != "max" {
						return false
					}
				case *ssa.Function:
					if !p.isConstFn(c, seen) {
						return false
					}
				default:
					return false
				}
			}
		}
	}
	return true
}

// witnessType: the Go type of a witness, when it is the result of the named callee; int otherwise.
func (p *Prog) witnessType(f *ssa.Function, w *Witness) types.Type {
	if id := strings.TrimSpace(w.Expr.Text); strings.HasPrefix(id, "callresult") {
		idx := 0
		if len(id) > len("callresult") {
			fmt.Sscanf(id[len("callresult"):], "%d", &idx)
		}
		for _, b := range f.Blocks {
			for _, ins := range b.Instrs {
				if ci, ok := ins.(ssa.CallInstruction); ok {
					if c := staticCallee(ci.Common()); c != nil && c.Name() == w.Callee && idx < c.Signature.Results().Len() {
						return c.Signature.Results().At(idx).Type()
					}
				}
			}
		}
	}
	// the call is not (or no longer) in the function: type the witness from a repo function of that name, so that the
	// clauses still make sense (they then speak about a witness that is never captured)
	if id := strings.TrimSpace(w.Expr.Text); strings.HasPrefix(id, "callresult") {
		idx := 0
		if len(id) > len("callresult") {
			fmt.Sscanf(id[len("callresult"):], "%d", &idx)
		}
		for _, wantRecv := range []bool{false, true} { // package-level functions first
			for _, g := range p.allFuncs() {
				if g.Name() == w.Callee && (g.Signature.Recv() != nil) == wantRecv && idx < g.Signature.Results().Len() {
					return g.Signature.Results().At(idx).Type()
				}
			}
		}
	}
	return types.Typ[types.Int]
}

// boxedPointerTypes: pointer-to-named-struct types that some MakeInterface instruction of the repo converts to an
// interface (deterministic order).
func (p *Prog) boxedPointerTypes() []types.Type {
	if p.boxedPtr != nil {
		return p.boxedPtr
	}
	seen := map[string]types.Type{}
	for _, f := range p.allFuncs() {
		for _, b := range f.Blocks {
			for _, ins := range b.Instrs {
				if mi, ok := ins.(*ssa.MakeInterface); ok {
					if pt, isPtr := mi.X.Type().(*types.Pointer); isPtr {
						if n, isNamed := pt.Elem().(*types.Named); isNamed && n.Obj().Pkg() != nil && strings.HasPrefix(n.Obj().Pkg().Path(), "grol.io/grol") {
							seen[pt.String()] = pt
						}
					}
				}
			}
		}
	}
	p.boxedPtr = []types.Type{}
	for _, k := range sortedKeys(seen) {
		p.boxedPtr = append(p.boxedPtr, seen[k])
	}
	return p.boxedPtr
}
