package main

// Extension callbacks (package extensions): each callback is registered through object.CreateFunction with a record
// giving its name, arity bounds and argument types; eval.applyExtension checks those before every call (proved:
// applyExtension/pre@dyn.Callback.mincount / maxcount, and the type loop).  extRecords re-derives the records from the
// SSA of the registering functions (straight-line field stores into a local object.Extension, then MustCreate); from a
// record a contract is synthesised for the callback: the argument count is within [MinArgs, MaxArgs], argument i has
// the Go type that corresponds to ArgTypes[i], and the environment handed in is the *eval.State when the record has no
// client data.

import (
	"fmt"
	"go/constant"
	"go/parser"
	"go/types"
	"os"
	"path/filepath"
	"sort"
	"strings"

	"golang.org/x/tools/go/ssa"
)

type extRecord struct {
	Name       string
	Min, Max   int
	ArgTypes   []string // object.Type constant names
	Callback   *ssa.Function
	ClientData bool
	CDType     types.Type // dynamic type of the client data handed to the callback
	Where      string
}

func (p *Prog) extRecords() (recs []*extRecord, skipped []string) {
	var extType types.Type
	for _, sp := range p.prog.AllPackages() {
		if sp.Pkg.Path() == "grol.io/grol/object" {
			if tn := sp.Pkg.Scope().Lookup("Extension"); tn != nil {
				extType = tn.Type()
			}
		}
	}
	if extType == nil {
		return nil, []string{"object.Extension not found"}
	}
	typeName := map[int64]string{}
	for _, sp := range p.prog.AllPackages() {
		if sp.Pkg.Path() != "grol.io/grol/object" {
			continue
		}
		for _, n := range sp.Pkg.Scope().Names() {
			if c, ok := sp.Pkg.Scope().Lookup(n).(*types.Const); ok && c.Type().String() == "grol.io/grol/object.Type" {
				if v, ok := constant.Int64Val(c.Val()); ok {
					typeName[v] = n
				}
			}
		}
	}
	st := extType.Underlying().(*types.Struct)
	fieldIdx := func(name string) int {
		for i := 0; i < st.NumFields(); i++ {
			if st.Field(i).Name() == name {
				return i
			}
		}
		return -1
	}
	fName, fMin, fMax, fTypes, fCb, fCD := fieldIdx("Name"), fieldIdx("MinArgs"), fieldIdx("MaxArgs"), fieldIdx("ArgTypes"), fieldIdx("Callback"), fieldIdx("ClientData")
	for _, f := range p.allFuncs("extensions") {
		if len(f.Blocks) == 0 {
			continue
		}
		// linear scan in block order; only functions without loops are handled
		if p.loops(f).hasLoops() {
			for _, b := range f.Blocks {
				for _, ins := range b.Instrs {
					if c, ok := ins.(*ssa.Call); ok {
						if callee := c.Call.StaticCallee(); callee != nil && (callee.Name() == "MustCreate" || callee.Name() == "CreateFunction") {
							skipped = append(skipped, f.Name()+" (registers inside a loop) at "+p.posOf(ins))
						}
					}
				}
			}
			continue
		}
		state := map[*ssa.Alloc]map[int]ssa.Value{}
		for _, b := range f.Blocks {
			for _, ins := range b.Instrs {
				switch x := ins.(type) {
				case *ssa.Store:
					if fa, ok := x.Addr.(*ssa.FieldAddr); ok {
						if a, ok := fa.X.(*ssa.Alloc); ok && types.Identical(a.Type().(*types.Pointer).Elem(), extType) {
							if state[a] == nil {
								state[a] = map[int]ssa.Value{}
							}
							state[a][fa.Field] = x.Val
						}
					}
					if a, ok := x.Addr.(*ssa.Alloc); ok && types.Identical(a.Type().(*types.Pointer).Elem(), extType) {
						state[a] = nil // whole-record assignment: unknown
					}
				case *ssa.Call:
					callee := x.Call.StaticCallee()
					if callee == nil || (callee.Name() != "MustCreate" && callee.Name() != "CreateFunction") || len(x.Call.Args) != 1 {
						continue
					}
					ld, ok := x.Call.Args[0].(*ssa.UnOp)
					if !ok {
						skipped = append(skipped, f.Name()+" at "+p.posOf(ins))
						continue
					}
					a, ok := ld.X.(*ssa.Alloc)
					if !ok || state[a] == nil {
						skipped = append(skipped, f.Name()+" at "+p.posOf(ins))
						continue
					}
					s := state[a]
					r := &extRecord{Where: p.posOf(ins)}
					okRec := true
					constInt := func(v ssa.Value, def int) int {
						if v == nil {
							return def
						}
						if c, ok := v.(*ssa.Const); ok && c.Value != nil {
							if n, ok := constant.Int64Val(c.Value); ok {
								return int(n)
							}
						}
						okRec = false
						return def
					}
					if c, ok := s[fName].(*ssa.Const); ok && c.Value != nil && c.Value.Kind() == constant.String {
						r.Name = constant.StringVal(c.Value)
					} else {
						okRec = false
					}
					r.Min = constInt(s[fMin], 0)
					r.Max = constInt(s[fMax], 0)
					if cd := s[fCD]; cd != nil {
						if c, isC := cd.(*ssa.Const); !isC || c.Value != nil {
							r.ClientData = true
							if mi, isMI := cd.(*ssa.MakeInterface); isMI {
								r.CDType = mi.X.Type()
							}
						}
					}
					switch tv := s[fTypes].(type) {
					case nil:
					case *ssa.Slice:
						arr, isAlloc := tv.X.(*ssa.Alloc)
						if !isAlloc || tv.Low != nil || tv.High != nil {
							okRec = false
							break
						}
						n := int(arr.Type().(*types.Pointer).Elem().Underlying().(*types.Array).Len())
						r.ArgTypes = make([]string, n)
						for _, ref := range *arr.Referrers() {
							ia, ok := ref.(*ssa.IndexAddr)
							if !ok {
								continue
							}
							idx, isC := ia.Index.(*ssa.Const)
							if !isC {
								okRec = false
								continue
							}
							i64, _ := constant.Int64Val(idx.Value)
							for _, r2 := range *ia.Referrers() {
								if stv, ok := r2.(*ssa.Store); ok {
									if c, ok := stv.Val.(*ssa.Const); ok && c.Value != nil {
										v, _ := constant.Int64Val(c.Value)
										r.ArgTypes[i64] = typeName[v]
									} else {
										okRec = false
									}
								}
							}
						}
						for _, t := range r.ArgTypes {
							if t == "" {
								okRec = false
							}
						}
					case *ssa.Const:
						if tv.Value != nil {
							okRec = false
						}
					default:
						okRec = false
					}
					cb := s[fCb]
					if ct, ok := cb.(*ssa.ChangeType); ok {
						cb = ct.X
					}
					switch c := cb.(type) {
					case *ssa.MakeClosure:
						r.Callback = c.Fn.(*ssa.Function)
					case *ssa.Function:
						r.Callback = c
					default:
						okRec = false
					}
					if !okRec || r.Callback == nil {
						skipped = append(skipped, fmt.Sprintf("%s (record of %q not constant) at %s", f.Name(), r.Name, p.posOf(ins)))
						continue
					}
					// object.CreateFunction rejects MinArgs > MaxArgs (unless -1) and len(ArgTypes) < MinArgs
					recs = append(recs, r)
				}
			}
		}
	}
	sort.Slice(recs, func(i, j int) bool { return recs[i].Name < recs[j].Name })
	sort.Strings(skipped)
	return recs, skipped
}

var extGoType = map[string]string{
	"INTEGER": "isType(%s, object.Integer)", "FLOAT": "isType(%s, object.Float)", "BOOLEAN": "isType(%s, object.Boolean)", "STRING": "isType(%s, object.String)",
	"NIL": "isType(%s, object.Null)", "ERROR": "isType(%s, object.Error)", "FUNC": "isType(%s, object.Function)",
	"ARRAY": "(isType(%[1]s, object.SmallArray) || isType(%[1]s, object.BigArray))", "MAP": "(isType(%[1]s, object.SmallMap) || (isType(%[1]s, *object.BigMap) && %[1]s.(*object.BigMap) != nil))",
}

// extContract synthesises the callback's contract from its record (nil when a parameter is unnamed and needed).
func (p *Prog) extContract(r *extRecord) (*Contract, error) {
	f := r.Callback
	if len(f.Params) != 3 {
		return nil, fmt.Errorf("callback with %d parameters", len(f.Params))
	}
	envN, argsN := f.Params[0].Name(), f.Params[2].Name()
	c := &Contract{Key: funcKey(f), Pkg: f.Pkg.Pkg.Path(), Props: []string{"C07"}, Loops: map[int]*LoopSpec{}, Arith: "int", Unroll: map[int]int{}, File: "synthesised from the registration record of " + r.Name, MayPanic: []string{"would exceed memory"}, Modifies: []string{"*"}, HasMod: true, Overflow: true}
	add := func(label, text string) error {
		e, err := parser.ParseExpr(text)
		if err != nil {
			return err
		}
		c.Requires = append(c.Requires, &Clause{Label: label, Text: text, Expr: e, File: c.File, OnlyProp: "assumed"})
		return nil
	}
	if strings.HasPrefix(argsN, "_") || argsN == "" {
		return c, p.extEnvClauses(r, envN, add) // arguments unused
	}
	cnt := fmt.Sprintf("len(%s) >= %d", argsN, r.Min)
	if r.Max >= 0 {
		cnt += fmt.Sprintf(" && len(%s) <= %d", argsN, r.Max)
	}
	if err := add("count", cnt); err != nil {
		return nil, err
	}
	// argument objects are values produced by the evaluator: never a nil interface
	if err := add("nonnil", fmt.Sprintf("forall(0, len(%s), func(k int) bool { return %s[k] != nil })", argsN, argsN)); err != nil {
		return nil, err
	}
	for i, t := range r.ArgTypes {
		tmpl, ok := extGoType[t]
		if !ok {
			continue // ANY and kinds without a single Go type
		}
		if err := add(fmt.Sprintf("type%d", i), fmt.Sprintf("implies(len(%s) > %d, %s)", argsN, i, fmt.Sprintf(tmpl, fmt.Sprintf("%s[%d]", argsN, i)))); err != nil {
			return nil, err
		}
	}
	return c, p.extEnvClauses(r, envN, add)
}

// extEnvClauses: the environment handed to the callback is the record's client data or the interpreter state.
func (p *Prog) extEnvClauses(r *extRecord, envN string, add func(label, text string) error) error {
	f := r.Callback
	if r.ClientData && r.CDType != nil && envN != "" && !strings.HasPrefix(envN, "_") {
		tn := types.TypeString(r.CDType, func(pk *types.Package) string { return pk.Name() })
		if pk := f.Pkg.Pkg; strings.HasPrefix(tn, pk.Name()+".") {
			tn = strings.TrimPrefix(tn, pk.Name()+".")
		}
		cl := fmt.Sprintf("isType(%s, %s)", envN, tn)
		if _, isMap := r.CDType.Underlying().(*types.Map); isMap {
			cl += fmt.Sprintf(" && %s.(%s) != nil", envN, tn)
		}
		if err := add("clientdata", cl); err != nil {
			return err
		}
	}
	if !r.ClientData && envN != "" && !strings.HasPrefix(envN, "_") {
		if err := add("env", fmt.Sprintf("isType(%s, *eval.State) && %s.(*eval.State) != nil", envN, envN)); err != nil {
			return err
		}
	}
	return nil
}

// cmdExts: debug - verify every extension callback under its synthesised contract and print a summary.
func cmdExts() {
	p, err := loadProg("/repo", "/verif/contracts")
	if err != nil {
		fmt.Println(err)
		return
	}
	p.curProp = "C07"
	recs, skipped := p.extRecords()
	fmt.Printf("%d records, %d skipped\n", len(recs), len(skipped))
	for _, s := range skipped {
		fmt.Println("  skipped:", s)
	}
	var results []*FnResult
	byKey := map[string]*extRecord{}
	for _, r := range recs {
		c, err := p.extContract(r)
		if err != nil {
			fmt.Printf("  %s: %v\n", r.Name, err)
			continue
		}
		byKey[c.Key] = r
		results = append(results, p.verifyFunction(r.Callback, c))
	}
	solveAll(results, 5, 16)
	for _, res := range results {
		r := byKey[res.Key]
		if res.Unsupported != "" {
			fmt.Printf("%-22s UNSUPPORTED %s\n", r.Name, res.Unsupported)
			continue
		}
		bad := 0
		var first string
		for _, o := range res.Q.obligs {
			if o.Status != "proved" {
				bad++
				if first == "" || os.Getenv("GOVC_EXTS_ALL") != "" {
					first += "\n      " + o.Name + ": " + o.Comment + " [" + o.Status + "]"
				}
			}
		}
		fmt.Printf("%-22s min=%d max=%d types=%v obligations=%d open=%d %s\n", r.Name, r.Min, r.Max, r.ArgTypes, len(res.Q.obligs), bad, first)
	}
}

// extClaimed: the callbacks whose every obligation is discharged under the synthesised contract (one name per line in
// /verif/ext_claimed.txt, fixed: a claimed callback that no longer verifies is a violation, an unclaimed one is reported
// as not covered).
func extClaimed(vdir string) map[string]bool {
	out := map[string]bool{}
	b, err := os.ReadFile(filepath.Join(vdir, "ext_claimed.txt"))
	if err != nil {
		return out
	}
	for _, l := range strings.Split(string(b), "\n") {
		if l = strings.TrimSpace(l); l != "" && !strings.HasPrefix(l, "#") {
			out[l] = true
		}
	}
	return out
}

func init() {
	propPreFuncs["C07"] = func(cc *CheckCtx) []*FnResult {
		p := cc.P
		claimed := extClaimed(cc.VerifDir)
		recs, skipped := p.extRecords()
		var results []*FnResult
		seen := map[string]bool{}
		var notCovered []string
		for _, r := range recs {
			if seen[r.Name] {
				continue
			}
			seen[r.Name] = true
			if !claimed[r.Name] {
				notCovered = append(notCovered, r.Name)
				continue
			}
			c, err := p.extContract(r)
			if err != nil {
				cc.add(&Item{Name: "C07/extension." + r.Name + "/bind", Kind: "bind", Status: "failed", Backend: "govc", Detail: "cannot synthesise the contract of the callback: " + err.Error(), Where: r.Where})
				continue
			}
			results = append(results, p.verifyFunction(r.Callback, c))
			cc.Funcs = append(cc.Funcs, fmt.Sprintf("%s (callback of extension %s: contract synthesised from its registration record: %d..%d arguments of types %v)", funcKey(r.Callback), r.Name, r.Min, r.Max, r.ArgTypes))
		}
		var lost []string
		for n := range claimed {
			if !seen[n] {
				lost = append(lost, n)
			}
		}
		sort.Strings(lost)
		cc.audit("extension-records", len(lost) == 0, fmt.Sprintf("the registration records of the %d claimed extension callbacks are found in the registering functions (constant name, arity bounds, argument types, callback); missing: %v", len(claimed), lost), "")
		sort.Strings(notCovered)
		cc.Assume = append(cc.Assume,
			"C07: extension callbacks are verified under the argument count and argument types that eval.applyExtension checks from their registration record, that argument objects are non-nil, and that the environment handed in is the interpreter state or the record's client data; inside them, calls to library functions are abstracted",
			fmt.Sprintf("C07: extension callbacks not covered (open obligations under the synthesised contract, or registered in a way the extraction does not follow): %v; %d registrations skipped: %v", notCovered, len(skipped), skipped))
		return results
	}
}
