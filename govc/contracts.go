package main

// Contract files: //@ comment blocks in /repo/<pkg>/verif_contracts.go (build tag verif)
// and assumed contracts for external functions in /verif/contracts/*.contracts.

import (
	"bufio"
	"fmt"
	"go/ast"
	"go/parser"
	"os"
	"path/filepath"
	"strconv"
	"strings"
)

type Clause struct {
	OnlyProp string // clause applies only when checking this property ("@C17 expr")
	Label    string
	Text     string
	Expr     ast.Expr
	File     string
	Line     int
}

type LoopSpec struct {
	Invariants []*Clause
	Decreases  *Clause
	Exits      []*Clause // checked on every edge leaving the loop
}

type Contract struct {
	Key         string // "pkgpath.(*T).Name" or "pkgpath.Name"
	Pkg         string
	Requires    []*Clause
	Ensures     []*Clause
	Modifies    []string // raw lvalue texts; "*" = anything
	HasMod      bool
	Loops       map[int]*LoopSpec
	Props       []string
	Assumed     bool   // external: never verified
	Arith       string // "int" (default) | "bv"
	Overflow    bool   // emit overflow obligations
	Opaque      bool   // never inline even when loop-free
	Inline      bool   // always inline (contract still verified on its own)
	MayPanic    []string
	NoSafety    bool // do not generate safe.* obligations (only post/frames)
	SafetyProps []string
	Pure        bool
	Fresh       bool // result is freshly allocated
	Lemmas      []*Clause
	File        string
	Line        int
	Unroll      map[int]int // loop ordinal -> constant bound to unroll
	Ghost       []string
	OnPanic     []*Clause // exceptional postconditions (onpanic ensures): hold whenever the function is left by a panic, after its defers ran
	Witnesses   []*Witness
	Splits      [][]*Clause // case splits applied to every ensures clause (cartesian product)
	PreCalls    []*DynCall  // obligations at calls to a named static callee, evaluated in the caller's scope
	DynCalls    []*DynCall
	Uses        []string // axioms assumed in this function
	TrustFrame  bool     // the modifies clause is assumed, not checked (reported as an assumption)
	Unfold      []string // callees (by key suffix) to inline in this function even when they have loops / contracts
}

// DynCall: "dyncall <field> requires label:: expr" - an obligation at every call through a function value loaded
// from a struct field of that name; the call's arguments are arg0, arg1, ...
type DynCall struct {
	Field   string
	Clause  *Clause
	Ensures bool // assumed after the call instead of required before it
	OnPanic bool // assumed of the state in which the call is left by a panic
	// Like: "dyncall <field> like <(*T).method>": a call through a function value looked up in the map held by
	// field <field> of x is treated as the call x.method(args) under method's contract.  Sound only when every
	// function stored in that map is a method bound to x whose contract has the same clauses (audited, see
	// auditDynLike).
	Like string
}

// Witness: a ghost out-parameter; "witness s = expr after callee#n" binds s to expr evaluated right
// after the n-th call to callee in the body; at call sites s is an existentially bound fresh constant.
type Witness struct {
	Name   string
	Expr   *Clause
	Callee string
	N      int
}

type Define struct {
	Name   string
	Params []string
	Body   ast.Expr
	Text   string
}

type ContractSet struct {
	ByKey      map[string]*Contract
	Order      []string
	Files      []string
	Defines    map[string]*Define // "pkgpath.name"
	Globals    []*GlobalInv
	Axioms     map[string]*GlobalInv // "pkgpath.name": assumed facts (never verified here; listed as assumptions)
	GhostNames map[string]bool       // names used in ghost("name", ...) anywhere
}

// GlobalInv: "//@ global label:: expr" - a Go expression over package-level variables that are never written
// after package initialisation.  Assumed everywhere; discharged by running the real package init (generated
// test) plus a write audit.
type GlobalInv struct {
	Pkg    string
	Clause *Clause
}

func newContractSet() *ContractSet {
	return &ContractSet{ByKey: map[string]*Contract{}, Defines: map[string]*Define{}, Axioms: map[string]*GlobalInv{}}
}

func (cs *ContractSet) get(key string) *Contract {
	if c, ok := cs.ByKey[key]; ok {
		return c
	}
	// instantiated generic: contract is stated on the generic function
	if i := strings.Index(key, "["); i > 0 {
		return cs.ByKey[key[:i]]
	}
	return nil
}

// parseContractFile reads //@ lines.  pkgPath is prefixed to "func" keys that
// are not already qualified (contain a '/' or a leading known package path).
func (cs *ContractSet) parseFile(path, pkgPath string) error {
	f, err := os.Open(path)
	if err != nil {
		return err
	}
	defer f.Close()
	cs.Files = append(cs.Files, path)
	sc := bufio.NewScanner(f)
	sc.Buffer(make([]byte, 1<<20), 1<<20)
	var cur *Contract
	var group []*Contract // other members of a "funcs" group: they receive a copy of cur's clauses at the end
	var groups [][]*Contract
	var leaders []*Contract
	var alsos []*Contract // "also <func>" blocks: clauses added to a contract declared elsewhere in the file (e.g. by a funcs group)
	flush := func() {
		if cur != nil && len(group) > 0 {
			groups = append(groups, group)
			leaders = append(leaders, cur)
		}
	}
	defer func() {
		flush()
		for i, g := range groups {
			l := leaders[i]
			for _, c := range g {
				key, file, line := c.Key, c.File, c.Line
				*c = *l
				c.Key, c.File, c.Line = key, file, line
			}
		}
		for _, a := range alsos {
			t := cs.ByKey[a.Key]
			if t == nil {
				continue
			}
			t.Requires = append(append([]*Clause{}, t.Requires...), a.Requires...)
			t.Ensures = append(append([]*Clause{}, t.Ensures...), a.Ensures...)
			t.OnPanic = append(append([]*Clause{}, t.OnPanic...), a.OnPanic...)
			t.Witnesses = append(append([]*Witness{}, t.Witnesses...), a.Witnesses...)
			t.PreCalls = append(append([]*DynCall{}, t.PreCalls...), a.PreCalls...)
			t.DynCalls = append(append([]*DynCall{}, t.DynCalls...), a.DynCalls...)
			t.MayPanic = append(append([]string{}, t.MayPanic...), a.MayPanic...)
			t.Unfold = append(append([]string{}, t.Unfold...), a.Unfold...)
			t.Uses = append(append([]string{}, t.Uses...), a.Uses...)
			loops := map[int]*LoopSpec{}
			for k, l := range t.Loops {
				loops[k] = l
			}
			for k, l := range a.Loops {
				n := &LoopSpec{}
				if o := loops[k]; o != nil {
					*n = *o
					n.Invariants = append([]*Clause{}, o.Invariants...)
					n.Exits = append([]*Clause{}, o.Exits...)
				}
				n.Invariants = append(n.Invariants, l.Invariants...)
				n.Exits = append(n.Exits, l.Exits...)
				if l.Decreases != nil {
					n.Decreases = l.Decreases
				}
				loops[k] = n
			}
			t.Loops = loops
		}
	}()
	ln := 0
	for sc.Scan() {
		ln++
		line := strings.TrimSpace(sc.Text())
		if !strings.HasPrefix(line, "//@") {
			continue
		}
		line = strings.TrimSpace(line[3:])
		if line == "" || strings.HasPrefix(line, "#") {
			continue
		}
		for rest := line; ; {
			i := strings.Index(rest, "ghost(\"")
			if i < 0 {
				break
			}
			rest = rest[i+7:]
			if j := strings.Index(rest, "\""); j > 0 {
				if cs.GhostNames == nil {
					cs.GhostNames = map[string]bool{}
				}
				cs.GhostNames[rest[:j]] = true
			}
		}
		word, rest := splitWord(line)
		if word == "define" {
			// define name(a, b) = expr
			eqi := strings.Index(rest, "=")
			lp, rp := strings.Index(rest, "("), strings.Index(rest, ")")
			if eqi < 0 || lp < 0 || rp < lp || rp > eqi {
				return fmt.Errorf("%s:%d: bad define", path, ln)
			}
			name := strings.TrimSpace(rest[:lp])
			var params []string
			for _, a := range strings.Split(rest[lp+1:rp], ",") {
				if a = strings.TrimSpace(a); a != "" {
					params = append(params, a)
				}
			}
			body := strings.TrimSpace(rest[eqi+1:])
			e, err := parser.ParseExpr(body)
			if err != nil {
				return fmt.Errorf("%s:%d: %v in %q", path, ln, err, body)
			}
			cs.Defines[pkgPath+"."+name] = &Define{Name: name, Params: params, Body: e, Text: body}
			continue
		}
		if word == "axiom" {
			i := strings.Index(rest, "::")
			if i < 0 {
				return fmt.Errorf("%s:%d: axiom needs a name: axiom name:: expr", path, ln)
			}
			name, text := strings.TrimSpace(rest[:i]), strings.TrimSpace(rest[i+2:])
			e, err := parser.ParseExpr(text)
			if err != nil {
				return fmt.Errorf("%s:%d: %v in %q", path, ln, err, text)
			}
			cs.Axioms[pkgPath+"."+name] = &GlobalInv{Pkg: pkgPath, Clause: &Clause{Label: name, Text: text, Expr: e, File: path, Line: ln}}
			continue
		}
		if word == "global" {
			text := rest
			label := ""
			if i := strings.Index(text, "::"); i > 0 && !strings.ContainsAny(text[:i], " ()") {
				label = text[:i]
				text = strings.TrimSpace(text[i+2:])
			}
			e, err := parser.ParseExpr(text)
			if err != nil {
				return fmt.Errorf("%s:%d: %v in %q", path, ln, err, text)
			}
			if label == "" {
				label = fmt.Sprintf("g%d", len(cs.Globals)+1)
			}
			cs.Globals = append(cs.Globals, &GlobalInv{Pkg: pkgPath, Clause: &Clause{Label: label, Text: text, Expr: e, File: path, Line: ln}})
			continue
		}
		if word == "funcs" || word == "func" || word == "also" {
			flush()
		}
		if word == "also" {
			// "also <func>": the clauses that follow are added to the contract of <func>, declared elsewhere in this file
			group = nil
			key := strings.TrimSpace(rest)
			full := key
			if pkgPath != "" && !strings.Contains(key, "/") && !isQualifiedStd(key) {
				full = pkgPath + "." + key
			}
			cur = &Contract{Key: full, Pkg: pkgPath, Loops: map[int]*LoopSpec{}, Arith: "int", File: path, Line: ln, Unroll: map[int]int{}}
			alsos = append(alsos, cur)
			continue
		}
		if word == "funcs" {
			// group: the clauses that follow apply to every listed function (one contract each)
			var keys []string
			groupAssumed := false
			if strings.HasSuffix(strings.TrimSpace(rest), " assumed") {
				groupAssumed = true
				rest = strings.TrimSuffix(strings.TrimSpace(rest), " assumed")
			}
			for _, k := range strings.Split(rest, ",") {
				if k = strings.TrimSpace(k); k != "" {
					keys = append(keys, k)
				}
			}
			if len(keys) == 0 {
				return fmt.Errorf("%s:%d: empty funcs list", path, ln)
			}
			first := true
			group = nil
			for _, key := range keys {
				full := key
				if pkgPath != "" && !strings.Contains(key, "/") && !isQualifiedStd(key) {
					full = pkgPath + "." + key
				}
				if _, dup := cs.ByKey[full]; dup {
					return fmt.Errorf("%s:%d: duplicate contract for %s", path, ln, full)
				}
				c := &Contract{Key: full, Pkg: pkgPath, Loops: map[int]*LoopSpec{}, Arith: "int", File: path, Line: ln, Unroll: map[int]int{}, Assumed: groupAssumed}
				cs.ByKey[full] = c
				cs.Order = append(cs.Order, full)
				if first {
					cur = c
					first = false
				} else {
					group = append(group, c)
				}
			}
			continue
		}
		if word == "func" {
			group = nil
			key := strings.TrimSpace(rest)
			assumed := false
			if strings.HasSuffix(key, " assumed") {
				assumed = true
				key = strings.TrimSpace(strings.TrimSuffix(key, " assumed"))
			}
			full := key
			if pkgPath != "" && !strings.Contains(key, "/") && !isQualifiedStd(key) {
				full = pkgPath + "." + key
			}
			if _, dup := cs.ByKey[full]; dup {
				return fmt.Errorf("%s:%d: duplicate contract for %s", path, ln, full)
			}
			cur = &Contract{Key: full, Pkg: pkgPath, Loops: map[int]*LoopSpec{}, Assumed: assumed, Arith: "int", File: path, Line: ln, Unroll: map[int]int{}}
			cs.ByKey[full] = cur
			cs.Order = append(cs.Order, full)
			continue
		}
		if cur == nil {
			return fmt.Errorf("%s:%d: clause outside func block", path, ln)
		}
		mk := func(text string) (*Clause, error) {
			label := ""
			onlyProp := ""
			if strings.HasPrefix(text, "@") {
				var w string
				w, text = splitWord(text)
				onlyProp = w[1:]
			}
			if i := strings.Index(text, "::"); i > 0 && !strings.ContainsAny(text[:i], " ()") {
				label = text[:i]
				text = strings.TrimSpace(text[i+2:])
			}
			e, err := parser.ParseExpr(text)
			if err != nil {
				return nil, fmt.Errorf("%s:%d: %v in %q", path, ln, err, text)
			}
			return &Clause{Label: label, Text: text, Expr: e, File: path, Line: ln, OnlyProp: onlyProp}, nil
		}
		switch word {
		case "requires":
			c, err := mk(rest)
			if err != nil {
				return err
			}
			cur.Requires = append(cur.Requires, c)
		case "ensures":
			c, err := mk(rest)
			if err != nil {
				return err
			}
			if c.Label == "" {
				c.Label = strconv.Itoa(len(cur.Ensures) + 1)
			}
			cur.Ensures = append(cur.Ensures, c)
		case "modifies":
			cur.HasMod = true
			for _, m := range strings.Split(rest, ",") {
				m = strings.TrimSpace(m)
				if m != "" && m != "nothing" {
					cur.Modifies = append(cur.Modifies, m)
				}
			}
		case "pure":
			cur.Pure = true
			cur.HasMod = true
		case "loop":
			w2, r2 := splitWord(rest)
			n, err := strconv.Atoi(w2)
			if w2 == "*" {
				n, err = 0, nil // "loop * invariant e": e is an invariant of every loop of the function
			}
			if err != nil {
				return fmt.Errorf("%s:%d: loop ordinal: %v", path, ln, err)
			}
			w3, r3 := splitWord(r2)
			ls := cur.Loops[n]
			if ls == nil {
				ls = &LoopSpec{}
				cur.Loops[n] = ls
			}
			switch w3 {
			case "invariant":
				c, err := mk(r3)
				if err != nil {
					return err
				}
				if c.Label == "" {
					c.Label = strconv.Itoa(len(ls.Invariants) + 1)
					if n == 0 {
						c.Label = "all" + c.Label
					}
				}
				ls.Invariants = append(ls.Invariants, c)
			case "decreases":
				c, err := mk(r3)
				if err != nil {
					return err
				}
				ls.Decreases = c
			case "exit":
				c, err := mk(r3)
				if err != nil {
					return err
				}
				if c.Label == "" {
					c.Label = strconv.Itoa(len(ls.Exits) + 1)
				}
				ls.Exits = append(ls.Exits, c)
			case "unroll":
				k, err := strconv.Atoi(strings.TrimSpace(r3))
				if err != nil {
					return fmt.Errorf("%s:%d: unroll: %v", path, ln, err)
				}
				cur.Unroll[n] = k
			default:
				return fmt.Errorf("%s:%d: unknown loop clause %q", path, ln, w3)
			}
		case "witness":
			// witness s = expr after callee#n
			eqi := strings.Index(rest, "=")
			ai := strings.LastIndex(rest, " after ")
			if eqi < 0 || ai < eqi {
				return fmt.Errorf("%s:%d: bad witness clause", path, ln)
			}
			c, err := mk(strings.TrimSpace(rest[eqi+1 : ai]))
			if err != nil {
				return err
			}
			tgt := strings.TrimSpace(rest[ai+7:])
			n := 1
			if hi := strings.Index(tgt, "#"); hi >= 0 {
				n, _ = strconv.Atoi(tgt[hi+1:])
				tgt = tgt[:hi]
			}
			cur.Witnesses = append(cur.Witnesses, &Witness{Name: strings.TrimSpace(rest[:eqi]), Expr: c, Callee: tgt, N: n})
		case "split":
			var alts []*Clause
			for _, a := range strings.Split(rest, " | ") {
				c, err := mk(strings.TrimSpace(a))
				if err != nil {
					return err
				}
				alts = append(alts, c)
			}
			cur.Splits = append(cur.Splits, alts)
		case "precall":
			fld, r2 := splitWord(rest)
			kw, r3 := splitWord(r2)
			if kw != "requires" {
				return fmt.Errorf("%s:%d: precall <callee> requires <expr>", path, ln)
			}
			c, err := mk(r3)
			if err != nil {
				return err
			}
			if c.Label == "" {
				c.Label = strconv.Itoa(len(cur.PreCalls) + 1)
			}
			cur.PreCalls = append(cur.PreCalls, &DynCall{Field: fld, Clause: c})
		case "dyncall":
			fld, r2 := splitWord(rest)
			kw, r3 := splitWord(r2)
			if kw == "like" {
				cur.DynCalls = append(cur.DynCalls, &DynCall{Field: fld, Like: strings.TrimSpace(r3), Clause: &Clause{Text: "like " + r3}})
				break
			}
			if kw != "requires" && kw != "ensures" && kw != "onpanic" {
				return fmt.Errorf("%s:%d: dyncall <field> requires|ensures|onpanic <expr>", path, ln)
			}
			c, err := mk(r3)
			if err != nil {
				return err
			}
			if c.Label == "" {
				c.Label = strconv.Itoa(len(cur.DynCalls) + 1)
			}
			cur.DynCalls = append(cur.DynCalls, &DynCall{Field: fld, Clause: c, Ensures: kw == "ensures", OnPanic: kw == "onpanic"})
		case "onpanic":
			// "onpanic ensures e": e holds whenever the function is left by a panic, after its deferred calls ran
			kw, r2 := splitWord(rest)
			if kw != "ensures" {
				return fmt.Errorf("%s:%d: onpanic ensures <expr>", path, ln)
			}
			c, err := mk(r2)
			if err != nil {
				return err
			}
			if c.Label == "" {
				c.Label = strconv.Itoa(len(cur.OnPanic) + 1)
			}
			cur.OnPanic = append(cur.OnPanic, c)
		case "uses":
			cur.Uses = append(cur.Uses, strings.Fields(rest)...)
		case "trustframe":
			cur.TrustFrame = true
		case "unfold":
			cur.Unfold = append(cur.Unfold, strings.Fields(rest)...)
		case "property":
			cur.Props = append(cur.Props, strings.Fields(rest)...)
		case "arith":
			cur.Arith = strings.TrimSpace(rest)
		case "overflow":
			cur.Overflow = true
		case "opaque":
			cur.Opaque = true
		case "inline":
			cur.Inline = true
		case "nosafety":
			cur.NoSafety = true
		case "safety":
			// "safety C01 C07": run-time-check obligations are generated only when checking one of these
			// properties (under the function's other properties they are assumed: decided by those runs)
			cur.SafetyProps = append(cur.SafetyProps, strings.Fields(rest)...)
		case "fresh":
			cur.Fresh = true
		case "maypanic":
			cur.MayPanic = append(cur.MayPanic, strings.TrimSpace(rest))
		case "ghost":
			cur.Ghost = append(cur.Ghost, strings.TrimSpace(rest))
		case "lemma":
			c, err := mk(rest)
			if err != nil {
				return err
			}
			if c.Label == "" {
				c.Label = strconv.Itoa(len(cur.Lemmas) + 1)
			}
			cur.Lemmas = append(cur.Lemmas, c)
		default:
			return fmt.Errorf("%s:%d: unknown clause %q", path, ln, word)
		}
	}
	return sc.Err()
}

func splitWord(s string) (string, string) {
	s = strings.TrimSpace(s)
	i := strings.IndexAny(s, " \t")
	if i < 0 {
		return s, ""
	}
	return s[:i], strings.TrimSpace(s[i+1:])
}

var stdPkgs = map[string]bool{"strings": true, "strconv": true, "bytes": true, "os": true, "fmt": true, "math": true,
	"slices": true, "cmp": true, "io": true, "bufio": true, "sort": true, "context": true, "time": true, "runtime": true, "debug": true, "errors": true, "utf8": true}

func isQualifiedStd(key string) bool {
	k := strings.TrimPrefix(key, "(*")
	k = strings.TrimPrefix(k, "(")
	i := strings.Index(k, ".")
	if i < 0 {
		return false
	}
	return stdPkgs[k[:i]]
}

func loadContracts(repo string, extraDir string) (*ContractSet, error) {
	cs := newContractSet()
	matches, _ := filepath.Glob(filepath.Join(repo, "*", "verif_contracts*.go"))
	top, _ := filepath.Glob(filepath.Join(repo, "verif_contracts*.go"))
	matches = append(matches, top...)
	for _, m := range matches {
		rel, _ := filepath.Rel(repo, filepath.Dir(m))
		pkg := "grol.io/grol"
		if rel != "." {
			pkg += "/" + rel
		}
		if err := cs.parseFile(m, pkg); err != nil {
			return nil, err
		}
	}
	if extraDir != "" {
		ex, _ := filepath.Glob(filepath.Join(extraDir, "*.contracts"))
		for _, m := range ex {
			if err := cs.parseFile(m, ""); err != nil {
				return nil, err
			}
		}
	}
	return cs, nil
}
