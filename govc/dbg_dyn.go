package main

import (
	"fmt"

	"golang.org/x/tools/go/ssa"
	"os"
	"strings"
)

func cmdDyn(args []string) {
	p, err := loadProg("/repo", "/verif/contracts")
	if err != nil {
		fmt.Println(err)
		os.Exit(2)
	}
	so := newSorts(false)
	for _, f := range p.allFuncs("object", "ast", "token", "trie", "lexer") {
		if p.bodyHasDyn(so, f) {
			why := ""
			for _, e := range p.effectsOfBlocks(so, f, f.Blocks, map[*ssa.Function]bool{}) {
				if e.all && e.dyn {
					why = e.pkg
				}
			}
			if len(args) == 0 || strings.Contains(funcKey(f), args[0]) {
				fmt.Println("DYN", funcKey(f), why)
			}
		}
	}
}
