package main

import (
	"fmt"

	"golang.org/x/tools/go/ssa"
	"os"
	"strings"
)

func cmdDyn(args []string) {
	p, err := loadProg("/repo", "/verif/contracts")
	if err != nil {
		fmt.Println(err)
		os.Exit(2)
	}
	so := newSorts(false)
	for _, f := range p.allFuncs("object", "ast", "token", "trie", "lexer") {
		if p.bodyHasDyn(so, f) {
			why := ""
			for _, e := range p.effectsOfBlocks(so, f, f.Blocks, map[*ssa.Function]bool{}) {
				if e.all && e.dyn {
					why = e.pkg
				}
			}
			if len(args) == 0 || strings.Contains(funcKey(f), args[0]) {
				fmt.Println("DYN", funcKey(f), why)
			}
		}
	}
}

// govc writers <key> [origin-substring]: who writes heap key, and whether the functions matching origin reach them.
func cmdWriters(args []string) {
	p, err := loadProg("/repo", "/verif/contracts")
	if err != nil {
		fmt.Println(err)
		os.Exit(2)
	}
	so := newSorts(false)
	ws := p.writersOf(so, args[0])
	for _, w := range ws {
		fmt.Println("WRITER", funcKey(w))
	}
	if len(args) > 1 {
		for _, f := range p.allFuncs() {
			if !strings.Contains(funcKey(f), args[1]) {
				continue
			}
			fmt.Println("ORIGIN", funcKey(f), "dyn:", p.bodyHasDyn(so, f))
			for _, w := range ws {
				if p.reaches(f, w) {
					fmt.Println("   reaches", funcKey(w))
				}
			}
		}
	}
}

func cmdWriterKeys() {
	p, _ := loadProg("/repo", "/verif/contracts")
	so := newSorts(false)
	p.writersOf(so, "")
	for k, ws := range p.writers {
		if strings.HasPrefix(k, "M:") {
			var ns []string
			for _, w := range ws {
				ns = append(ns, w.Name())
			}
			fmt.Println(k, ns)
		}
	}
}

// nonFreshFieldWrites lists stores to fields of struct types of package pkgPath whose target object was not
// allocated by the storing activation (base is not a local Alloc).
func (p *Prog) nonFreshFieldWrites(pkgPath string) map[string][]string {
	out := map[string][]string{}
	scratch := newSorts(false)
	for _, f := range p.allFuncs() {
		for _, b := range f.Blocks {
			for _, ins := range b.Instrs {
				st, ok := ins.(*ssa.Store)
				if !ok {
					continue
				}
				key, base, fresh, _, ok2 := p.addrEffect(scratch, st.Addr)
				if !ok2 || !strings.HasPrefix(key, "F:"+pkgPath+".") {
					continue
				}
				if fresh {
					continue
				}
				if _, isAlloc := base.(*ssa.Alloc); isAlloc {
					continue
				}
				out[funcKey(f)] = append(out[funcKey(f)], key+" at "+p.posOf(ins))
			}
		}
	}
	return out
}

func cmdAstWrites() {
	p, _ := loadProg("/repo", "/verif/contracts")
	for f, ws := range p.nonFreshFieldWrites("grol.io/grol/ast") {
		fmt.Println(f)
		for _, w := range ws {
			fmt.Println("   ", w)
		}
	}
}
