package main

import (
	"fmt"

	"golang.org/x/tools/go/ssa"
	"os"
	"strings"
)

func cmdDyn(args []string) {
	p, err := loadProg("/repo", "/verif/contracts")
	if err != nil {
		fmt.Println(err)
		os.Exit(2)
	}
	so := newSorts(false)
	for _, f := range p.allFuncs("object", "ast", "token", "trie", "lexer") {
		if p.bodyHasDyn(so, f) {
			why := ""
			for _, e := range p.effectsOfBlocks(so, f, f.Blocks, map[*ssa.Function]bool{}) {
				if e.all && e.dyn {
					why = e.pkg
				}
			}
			if len(args) == 0 || strings.Contains(funcKey(f), args[0]) {
				fmt.Println("DYN", funcKey(f), why)
			}
		}
	}
}

// govc writers <key> [origin-substring]: who writes heap key, and whether the functions matching origin reach them.
func cmdWriters(args []string) {
	p, err := loadProg("/repo", "/verif/contracts")
	if err != nil {
		fmt.Println(err)
		os.Exit(2)
	}
	so := newSorts(false)
	ws := p.writersOf(so, args[0])
	for _, w := range ws {
		fmt.Println("WRITER", funcKey(w))
	}
	if len(args) > 1 {
		for _, f := range p.allFuncs() {
			if !strings.Contains(funcKey(f), args[1]) {
				continue
			}
			fmt.Println("ORIGIN", funcKey(f), "dyn:", p.bodyHasDyn(so, f))
			for _, w := range ws {
				if p.reaches(f, w) {
					fmt.Println("   reaches", funcKey(w))
				}
			}
		}
	}
}

func cmdWriterKeys() {
	p, _ := loadProg("/repo", "/verif/contracts")
	so := newSorts(false)
	p.writersOf(so, "")
	for k, ws := range p.writers {
		if strings.HasPrefix(k, "M:") {
			var ns []string
			for _, w := range ws {
				ns = append(ns, w.Name())
			}
			fmt.Println(k, ns)
		}
	}
}

// nonFreshFieldWrites lists stores to fields of struct types of package pkgPath whose target object was not
// allocated by the storing activation (base is not a local Alloc).
func (p *Prog) nonFreshFieldWrites(pkgPath string) map[string][]string {
	out := map[string][]string{}
	scratch := newSorts(false)
	for _, f := range p.allFuncs() {
		for _, b := range f.Blocks {
			for _, ins := range b.Instrs {
				st, ok := ins.(*ssa.Store)
				if !ok {
					continue
				}
				key, base, fresh, _, ok2 := p.addrEffect(scratch, st.Addr)
				if !ok2 || !strings.HasPrefix(key, "F:"+pkgPath+".") {
					continue
				}
				if fresh {
					continue
				}
				if _, isAlloc := base.(*ssa.Alloc); isAlloc {
					continue
				}
				out[funcKey(f)] = append(out[funcKey(f)], key+" at "+p.posOf(ins))
			}
		}
	}
	return out
}

func cmdAstWrites() {
	p, _ := loadProg("/repo", "/verif/contracts")
	for f, ws := range p.nonFreshFieldWrites("grol.io/grol/ast") {
		fmt.Println(f)
		for _, w := range ws {
			fmt.Println("   ", w)
		}
	}
}

// govc sweep <pkg-suffix>: zero-annotation safety sweep (exploration aid): every function of the package without a
// contract is verified against a synthesised empty contract; prints the run-time-check obligations that are not proved.
func cmdSweep(args []string) {
	p, err := loadProg("/repo", "/verif/contracts")
	if err != nil {
		fmt.Println(err)
		os.Exit(2)
	}
	p.curProp = "C07"
	var results []*FnResult
	for _, f := range p.allFuncs(args...) {
		key := funcKey(f)
		if p.contracts.get(key) != nil || len(f.Blocks) == 0 || strings.HasSuffix(p.fset.Position(f.Pos()).Filename, "_string.go") {
			continue
		}
		syn := &Contract{Key: key, Props: []string{"C07"}, Loops: map[int]*LoopSpec{}, Arith: "int", Unroll: map[int]int{}, File: "synthesised", MayPanic: nil}
		r := p.verifyFunction(f, syn)
		results = append(results, r)
	}
	solveAll(results, 5, 16)
	for _, r := range results {
		if r.Unsupported != "" {
			fmt.Printf("UNSUPPORTED %s: %s\n", r.Key, r.Unsupported)
			continue
		}
		for _, o := range r.Q.obligs {
			if o.Status == "proved" || (os.Getenv("GOVC_SWEEP_ALL") == "" && (o.Kind == "safe.nil" || o.Kind == "cover" || o.Kind == "pre")) {
				continue
			}
			fmt.Printf("%s %s %s:%d %s\n", o.Status, o.Name, o.Pos.Filename, o.Pos.Line, o.Comment)
		}
	}
}
