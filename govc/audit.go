package main

// Structural contract clauses decided directly on the SSA of the working tree:
// call-site / write-site / read-set audits ("calls only", "writes only", "reads only" clauses).

import (
	"fmt"
	"go/types"
	"sort"
	"strings"

	"golang.org/x/tools/go/ssa"
)

// allFuncs returns every function (including anonymous ones and methods) of repo packages whose
// import path has one of the given suffixes (e.g. "extensions"); all repo packages when none given.
func (p *Prog) allFuncs(pkgSuffixes ...string) []*ssa.Function {
	seen := map[*ssa.Function]bool{}
	var out []*ssa.Function
	var add func(f *ssa.Function)
	add = func(f *ssa.Function) {
		if f == nil || seen[f] {
			return
		}
		seen[f] = true
		out = append(out, f)
		for _, a := range f.AnonFuncs {
			add(a)
		}
	}
	for _, sp := range p.prog.AllPackages() {
		path := sp.Pkg.Path()
		if !strings.HasPrefix(path, "grol.io/grol") {
			continue
		}
		ok := len(pkgSuffixes) == 0
		for _, s := range pkgSuffixes {
			if path == "grol.io/grol/"+s || (s == "main" && path == "grol.io/grol") {
				ok = true
			}
		}
		if !ok {
			continue
		}
		names := make([]string, 0, len(sp.Members))
		for n := range sp.Members {
			names = append(names, n)
		}
		sort.Strings(names)
		for _, n := range names {
			switch m := sp.Members[n].(type) {
			case *ssa.Function:
				add(m)
			case *ssa.Type:
				for _, tt := range []types.Type{m.Type(), types.NewPointer(m.Type())} {
					ms := p.prog.MethodSets.MethodSet(tt)
					for i := 0; i < ms.Len(); i++ {
						if f := p.prog.MethodValue(ms.At(i)); f != nil && f.Synthetic == "" {
							add(f)
						}
					}
				}
			}
		}
	}
	return out
}

func staticCallee(cc *ssa.CallCommon) *ssa.Function {
	if cc.IsInvoke() {
		return nil
	}
	switch f := cc.Value.(type) {
	case *ssa.Function:
		return f
	case *ssa.MakeClosure:
		return f.Fn.(*ssa.Function)
	}
	return nil
}

func calleePkgPath(f *ssa.Function) string {
	if f.Pkg != nil {
		return f.Pkg.Pkg.Path()
	}
	if f.Object() != nil && f.Object().Pkg() != nil {
		return f.Object().Pkg().Path()
	}
	return ""
}

type callSite struct {
	in     *ssa.Function
	instr  ssa.CallInstruction
	callee *ssa.Function
}

func (p *Prog) callSites(funcs []*ssa.Function, match func(callee *ssa.Function) bool) []callSite {
	var out []callSite
	for _, f := range funcs {
		for _, b := range f.Blocks {
			for _, ins := range b.Instrs {
				ci, ok := ins.(ssa.CallInstruction)
				if !ok {
					continue
				}
				if c := staticCallee(ci.Common()); c != nil && match(c) {
					out = append(out, callSite{f, ci, c})
				}
			}
		}
	}
	return out
}

// refSites: instructions that mention function fn as a value (call or function value).
func (p *Prog) refSites(funcs []*ssa.Function, fn *ssa.Function) []ssa.Instruction {
	var out []ssa.Instruction
	for _, f := range funcs {
		for _, b := range f.Blocks {
			for _, ins := range b.Instrs {
				for _, op := range ins.Operands(nil) {
					if *op == nil {
						continue
					}
					if *op == ssa.Value(fn) {
						out = append(out, ins)
					}
					if mc, ok := (*op).(*ssa.MakeClosure); ok && mc.Fn == ssa.Value(fn) {
						out = append(out, ins)
					}
				}
			}
		}
	}
	return out
}

func topFunc(f *ssa.Function) *ssa.Function {
	for f.Parent() != nil {
		f = f.Parent()
	}
	return f
}

// guardedBy reports whether block b is only reachable through the true (or false) edge of an If whose
// condition satisfies pred.
func guardedBy(b *ssa.BasicBlock, wantTrue bool, pred func(cond ssa.Value) bool) bool {
	for x := b; x != nil; x = x.Idom() {
		d := x.Idom()
		if d == nil {
			break
		}
		if iff, ok := d.Instrs[len(d.Instrs)-1].(*ssa.If); ok && pred(iff.Cond) {
			// x must be dominated by exactly one of the successors
			tgt := d.Succs[0]
			if !wantTrue {
				tgt = d.Succs[1]
			}
			other := d.Succs[1]
			if !wantTrue {
				other = d.Succs[0]
			}
			if tgt != other && tgt.Dominates(b) && len(tgt.Preds) == 1 {
				return true
			}
		}
	}
	return false
}

// isFieldLoadOfParam: v is *(&param.field) for the named field (param of pointer-to-struct type).
func isFieldLoadOfParam(v ssa.Value, field string) bool {
	u, ok := v.(*ssa.UnOp)
	if !ok {
		return false
	}
	fa, ok := u.X.(*ssa.FieldAddr)
	if !ok {
		return false
	}
	if _, isParam := fa.X.(*ssa.Parameter); !isParam {
		// allow phi-free reloads of a param stored in a local: not needed here
		return false
	}
	st, _ := derefStruct(fa.X.Type())
	return fieldName(st, fa.Field) == field
}

func isGlobalLoad(v ssa.Value, name string) bool {
	u, ok := v.(*ssa.UnOp)
	if !ok {
		return false
	}
	g, ok := u.X.(*ssa.Global)
	return ok && g.Name() == name
}

func (cc *CheckCtx) audit(name string, ok bool, detail, where string) {
	st := "proved"
	if !ok {
		st = "failed"
	}
	cc.add(&Item{Name: cc.Prop + "/audit." + name, Kind: "audit", Status: st, Backend: "ssa-audit", Detail: detail, Where: where})
}

func (p *Prog) posOf(ins ssa.Instruction) string {
	pos := p.fset.Position(ins.Pos())
	if !pos.IsValid() && ins.Block() != nil {
		for _, j := range ins.Block().Instrs {
			if j.Pos().IsValid() {
				pos = p.fset.Position(j.Pos())
				break
			}
		}
	}
	return fmt.Sprintf("%s:%d", pos.Filename, pos.Line)
}

// reachableFrom computes the set of repo functions reachable (static calls, closures created, function
// values referenced, interface calls via CHA) from roots.
func (p *Prog) reachableFrom(roots []*ssa.Function) map[*ssa.Function]bool {
	seen := map[*ssa.Function]bool{}
	var work []*ssa.Function
	push := func(f *ssa.Function) {
		if f != nil && !seen[f] {
			seen[f] = true
			work = append(work, f)
		}
	}
	for _, r := range roots {
		push(r)
	}
	for len(work) > 0 {
		f := work[len(work)-1]
		work = work[:len(work)-1]
		for _, b := range f.Blocks {
			for _, ins := range b.Instrs {
				for _, op := range ins.Operands(nil) {
					if *op == nil {
						continue
					}
					switch v := (*op).(type) {
					case *ssa.Function:
						push(v)
					case *ssa.MakeClosure:
						push(v.Fn.(*ssa.Function))
					}
				}
				if ci, ok := ins.(ssa.CallInstruction); ok && ci.Common().IsInvoke() {
					for _, t := range p.invokeTargets(ci.Common()) {
						push(t)
					}
				}
			}
		}
	}
	return seen
}

// writesToGlobal lists Store instructions whose address is the named global of pkg.
func (p *Prog) writesToGlobal(funcs []*ssa.Function, pkgSuffix, name string) []*ssa.Store {
	var out []*ssa.Store
	for _, f := range funcs {
		for _, b := range f.Blocks {
			for _, ins := range b.Instrs {
				if st, ok := ins.(*ssa.Store); ok {
					if g, ok := st.Addr.(*ssa.Global); ok && g.Name() == name && strings.HasSuffix(g.Pkg.Pkg.Path(), pkgSuffix) {
						out = append(out, st)
					}
				}
			}
		}
	}
	return out
}
