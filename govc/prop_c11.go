package main

func init() {
	propExtras["C11"] = func(cc *CheckCtx) {
		cc.runBounded(BoundedSpec{Name: "map-model", PkgDir: "object", File: "c11_map_test.go", Test: "TestVerifBoundedMapModel", TimeoutS: 900,
			Contract: "object.Map API (Set/Delete/Rest/Range/Append/Get/Len/Inspect/Equals) against a reference finite map in key order"})
		cc.Assume = append(cc.Assume,
			"C11: Cmp on map keys is assumed to be a total order returning -1/0/1 (axiom cmpOrder: proved for scalar keys by the C12 lemmas, known to fail across int/float beyond 2^53, assumed for container keys)",
			"C11: deductive contracts cover SmallMap.get/Set (incl. promotion to BigMap); the other operations are covered by the bounded evaluation only")
	}
}
