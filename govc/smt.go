package main

// SMT term layer: terms are plain strings tagged with a sort name.

import (
	"fmt"
	"go/types"
	"math/big"
	"sort"
	"strings"

	"golang.org/x/tools/go/ssa"
)

type Term struct {
	S    string
	Sort string
}

const (
	sInt   = "Int"
	sBool  = "Bool"
	sStr   = "Str"
	sSlice = "Slice"
	sIface = "Iface"
	sF64   = "F64"
	sF32   = "F32"
)

var (
	tTrue  = Term{"true", sBool}
	tFalse = Term{"false", sBool}
)

func tInt(n int64) Term {
	if n < 0 {
		return Term{fmt.Sprintf("(- %d)", -n), sInt}
	}
	return Term{fmt.Sprintf("%d", n), sInt}
}

func tIntS(s string) Term {
	if strings.HasPrefix(s, "-") {
		return Term{"(- " + s[1:] + ")", sInt}
	}
	return Term{s, sInt}
}

func app(sort, op string, args ...Term) Term {
	var b strings.Builder
	b.WriteByte('(')
	b.WriteString(op)
	for _, a := range args {
		b.WriteByte(' ')
		b.WriteString(a.S)
	}
	b.WriteByte(')')
	return Term{b.String(), sort}
}

func and(ts ...Term) Term {
	var xs []Term
	for _, t := range ts {
		if t.S == "true" {
			continue
		}
		if t.S == "false" {
			return tFalse
		}
		xs = append(xs, t)
	}
	if len(xs) == 0 {
		return tTrue
	}
	if len(xs) == 1 {
		return xs[0]
	}
	return app(sBool, "and", xs...)
}

func or(ts ...Term) Term {
	var xs []Term
	for _, t := range ts {
		if t.S == "false" {
			continue
		}
		if t.S == "true" {
			return tTrue
		}
		xs = append(xs, t)
	}
	if len(xs) == 0 {
		return tFalse
	}
	if len(xs) == 1 {
		return xs[0]
	}
	return app(sBool, "or", xs...)
}

func not(t Term) Term {
	if t.S == "true" {
		return tFalse
	}
	if t.S == "false" {
		return tTrue
	}
	return app(sBool, "not", t)
}

func implies(a, b Term) Term {
	if a.S == "true" {
		return b
	}
	if a.S == "false" || b.S == "true" {
		return tTrue
	}
	return app(sBool, "=>", a, b)
}

func eq(a, b Term) Term {
	if a.S == b.S {
		return tTrue
	}
	if a.Sort == sF64 || a.Sort == sF32 {
		// structural equality on FP terms (used for definitional equalities); Go == is fp.eq.
		return app(sBool, "=", a, b)
	}
	return app(sBool, "=", a, b)
}

func ite(c, a, b Term) Term {
	if c.S == "true" {
		return a
	}
	if c.S == "false" {
		return b
	}
	if a.S == b.S {
		return a
	}
	return app(a.Sort, "ite", c, a, b)
}

func sel(arr, idx Term) Term {
	return app(elemSortOf(arr.Sort), "select", arr, idx)
}

func store(arr, idx, v Term) Term {
	return app(arr.Sort, "store", arr, idx, v)
}

// "(Array Int X)" -> "X"
func elemSortOf(arraySort string) string {
	if !strings.HasPrefix(arraySort, "(Array ") {
		panic("not an array sort: " + arraySort)
	}
	inner := arraySort[len("(Array ") : len(arraySort)-1]
	// split first sort token
	depth := 0
	for i := 0; i < len(inner); i++ {
		switch inner[i] {
		case '(':
			depth++
		case ')':
			depth--
		case ' ':
			if depth == 0 {
				return inner[i+1:]
			}
		}
	}
	panic("bad array sort " + arraySort)
}

func idxSortOf(arraySort string) string {
	inner := arraySort[len("(Array ") : len(arraySort)-1]
	depth := 0
	for i := 0; i < len(inner); i++ {
		switch inner[i] {
		case '(':
			depth++
		case ')':
			depth--
		case ' ':
			if depth == 0 {
				return inner[:i]
			}
		}
	}
	panic("bad array sort " + arraySort)
}

func arrSort(idx, elem string) string { return "(Array " + idx + " " + elem + ")" }

// Str helpers.
func strLen(s Term) Term  { return app(sInt, "s_len", s) }
func strOff(s Term) Term  { return app(sInt, "s_off", s) }
func strData(s Term) Term { return app(arrSort(sInt, sInt), "s_data", s) }
func strAt(s, i Term) Term {
	return app(sInt, "str_at", s, i)
}
func mkStr(data, off, ln Term) Term { return app(sStr, "mk_str", data, off, ln) }

// Slice helpers.
func slBase(s Term) Term { return app(sInt, "sl_base", s) }
func slOff(s Term) Term  { return app(sInt, "sl_off", s) }
func slLen(s Term) Term  { return app(sInt, "sl_len", s) }
func slCap(s Term) Term  { return app(sInt, "sl_cap", s) }
func mkSlice(base, off, ln, cp Term) Term {
	return app(sSlice, "mk_slice", base, off, ln, cp)
}

func ifTag(i Term) Term { return app(sInt, "i_tag", i) }
func ifVal(i Term) Term { return app(sInt, "i_val", i) }
func mkIface(tag, val Term) Term {
	return app(sIface, "mk_iface", tag, val)
}

func add(a, b Term) Term { return app(sInt, "+", a, b) }
func sub(a, b Term) Term { return app(sInt, "-", a, b) }
func le(a, b Term) Term  { return app(sBool, "<=", a, b) }
func lt(a, b Term) Term  { return app(sBool, "<", a, b) }

const prelude = `(set-option :produce-models true)
(set-logic ALL)
(declare-datatypes ((Str 0)) (((mk_str (s_data (Array Int Int)) (s_off Int) (s_len Int)))))
(declare-datatypes ((Slice 0)) (((mk_slice (sl_base Int) (sl_off Int) (sl_len Int) (sl_cap Int)))))
(declare-datatypes ((Iface 0)) (((mk_iface (i_tag Int) (i_val Int)))))
(define-sort F64 () (_ FloatingPoint 11 53))
(define-sort F32 () (_ FloatingPoint 8 24))
(define-fun tdiv ((a Int) (b Int)) Int (ite (>= a 0) (ite (> b 0) (div a b) (- (div a (- b)))) (ite (> b 0) (- (div (- a) b)) (div (- a) (- b)))))
(define-fun tmod ((a Int) (b Int)) Int (- a (* b (tdiv a b))))
(define-fun str_at ((s Str) (i Int)) Int (select (s_data s) (+ (s_off s) i)))
;;STREQ;;
(define-fun wrap64 ((x Int)) Int (- (mod (+ x 9223372036854775808) 18446744073709551616) 9223372036854775808))
(define-fun wrap32 ((x Int)) Int (- (mod (+ x 2147483648) 4294967296) 2147483648))
(define-fun bor8 ((a Int) (b Int)) Int (bv2nat (bvor ((_ int2bv 8) a) ((_ int2bv 8) b))))
(define-fun band8 ((a Int) (b Int)) Int (bv2nat (bvand ((_ int2bv 8) a) ((_ int2bv 8) b))))
(define-fun bxor8 ((a Int) (b Int)) Int (bv2nat (bvxor ((_ int2bv 8) a) ((_ int2bv 8) b))))
(declare-fun uf_and (Int Int) Int)
(declare-fun uf_or (Int Int) Int)
(declare-fun uf_xor (Int Int) Int)
(declare-fun uf_shl (Int Int) Int)
(declare-fun uf_shr (Int Int) Int)
(declare-fun uf_strlt (Str Str) Bool)
(declare-fun uf_concat (Str Str) Str)
`

const streqAxioms = `(declare-fun str_eq (Str Str) Bool)
(assert (forall ((a Str) (b Str)) (! (=> (= a b) (str_eq a b)) :pattern ((str_eq a b)))))
(assert (forall ((a Str) (b Str)) (! (=> (str_eq a b) (and (= (s_len a) (s_len b)) (forall ((i Int)) (! (=> (and (<= 0 i) (< i (s_len a))) (= (str_at a i) (str_at b i))) :pattern ((str_at a i)) :pattern ((str_at b i)))))) :pattern ((str_eq a b)))))
(assert (forall ((a Str) (b Str)) (! (=> (and (= (s_len a) (s_len b)) (forall ((i Int)) (=> (and (<= 0 i) (< i (s_len a))) (= (str_at a i) (str_at b i))))) (str_eq a b)) :pattern ((str_eq a b)))))
(assert (forall ((a Str) (b Str)) (! (= (str_eq a b) (str_eq b a)) :pattern ((str_eq a b)))))
(assert (forall ((a Str) (b Str) (c Str)) (! (=> (and (str_eq a b) (str_eq b c)) (str_eq a c)) :pattern ((str_eq a b) (str_eq b c)))))
`

// string ordering (cmp.Compare[string], <): an uninterpreted three-way comparison that is a total order
// compatible with content equality.
const strcmpAxioms = `(declare-fun uf_strcmp (Str Str) Int)
(assert (forall ((a Str) (b Str)) (! (and (<= (- 1) (uf_strcmp a b)) (<= (uf_strcmp a b) 1)) :pattern ((uf_strcmp a b)))))
(assert (forall ((a Str) (b Str)) (! (= (uf_strcmp a b) (- (uf_strcmp b a))) :pattern ((uf_strcmp a b)))))
(assert (forall ((a Str) (b Str)) (! (= (= (uf_strcmp a b) 0) (str_eq a b)) :pattern ((uf_strcmp a b)))))
(assert (forall ((a Str) (b Str) (c Str)) (! (=> (and (<= (uf_strcmp a b) 0) (<= (uf_strcmp b c) 0)) (<= (uf_strcmp a c) 0)) :pattern ((uf_strcmp a b) (uf_strcmp b c)))))
(assert (forall ((a Str) (b Str) (c Str)) (! (=> (and (<= (uf_strcmp a b) 0) (<= (uf_strcmp b c) 0) (= (uf_strcmp a c) 0)) (and (= (uf_strcmp a b) 0) (= (uf_strcmp b c) 0))) :pattern ((uf_strcmp a b) (uf_strcmp b c)))))
`

const streqDefine = `(define-fun str_eq ((a Str) (b Str)) Bool (and (= (s_len a) (s_len b)) (forall ((i Int)) (=> (and (<= 0 i) (< i (s_len a))) (= (str_at a i) (str_at b i))))))
`

// Go type -> sort.  Struct sorts are registered on demand in the Sorts registry.
type Sorts struct {
	structDecl  []string          // datatype declarations in dependency order
	structSeen  map[string]string // type string -> sort name
	structTypes map[string]*types.Struct
	tagOf       map[string]int // concrete type string -> iface tag
	tagNames    []string
	keySort     map[string]string // heap key -> sort
	effCache    map[*ssa.Function][]Effect
	bv          bool // integers are fixed-width bit-vectors
}

func newSorts(bv bool) *Sorts {
	return &Sorts{structSeen: map[string]string{}, structTypes: map[string]*types.Struct{}, tagOf: map[string]int{},
		keySort: map[string]string{allocKey: sInt}, effCache: map[*ssa.Function][]Effect{}, bv: bv}
}

func sanitize(s string) string {
	var b strings.Builder
	for _, r := range s {
		switch {
		case r >= 'a' && r <= 'z', r >= 'A' && r <= 'Z', r >= '0' && r <= '9', r == '_':
			b.WriteRune(r)
		case r == '.', r == '/':
			b.WriteByte('_')
		case r == '*':
			b.WriteString("P")
		case r == '[':
			b.WriteString("L")
		case r == ']':
			b.WriteString("R")
		default:
			b.WriteByte('_')
		}
	}
	return b.String()
}

func (so *Sorts) tag(t types.Type) int {
	k := t.String()
	if n, ok := so.tagOf[k]; ok {
		return n
	}
	n := len(so.tagOf) + 1
	so.tagOf[k] = n
	so.tagNames = append(so.tagNames, k)
	return n
}

func isPointerLike(t types.Type) bool {
	switch t.Underlying().(type) {
	case *types.Pointer, *types.Map, *types.Chan, *types.Signature:
		return true
	}
	return false
}

func (so *Sorts) sortOf(t types.Type) string {
	switch u := t.Underlying().(type) {
	case *types.Basic:
		switch {
		case u.Info()&types.IsBoolean != 0:
			return sBool
		case u.Info()&types.IsInteger != 0:
			if so.bv {
				return bvSort(intWidth(t))
			}
			return sInt
		case u.Kind() == types.Float64 || u.Kind() == types.UntypedFloat:
			return sF64
		case u.Kind() == types.Float32:
			return sF32
		case u.Info()&types.IsString != 0:
			return sStr
		case u.Kind() == types.UnsafePointer:
			return sInt
		case u.Kind() == types.UntypedNil:
			return sInt
		}
		return sInt
	case *types.Pointer, *types.Map, *types.Chan, *types.Signature:
		return sInt
	case *types.Slice:
		return sSlice
	case *types.Interface:
		return sIface
	case *types.Array:
		return arrSort(sInt, so.sortOf(u.Elem()))
	case *types.Struct:
		key := t.String()
		if _, isNamed := t.(*types.Named); !isNamed {
			key = u.String()
		}
		if s, ok := so.structSeen[key]; ok {
			return s
		}
		name := "S_" + sanitize(key)
		if len(name) > 80 {
			name = fmt.Sprintf("%s_%d", name[:60], len(so.structSeen))
		}
		so.structSeen[key] = name
		so.structTypes[name] = u
		var fields []string
		for i := 0; i < u.NumFields(); i++ {
			fs := so.sortOf(u.Field(i).Type())
			fields = append(fields, fmt.Sprintf("(%s_f%d %s)", name, i, fs))
		}
		if len(fields) == 0 {
			so.structDecl = append(so.structDecl, fmt.Sprintf("(declare-datatypes ((%s 0)) (((mk_%s))))", name, name))
		} else {
			so.structDecl = append(so.structDecl, fmt.Sprintf("(declare-datatypes ((%s 0)) (((mk_%s %s))))", name, name, strings.Join(fields, " ")))
		}
		return name
	case *types.Tuple:
		return "Tuple"
	case *types.TypeParam:
		return sInt
	}
	panic("sortOf: unsupported type " + t.String())
}

func (so *Sorts) structField(sv Term, st *types.Struct, i int) Term {
	return app(so.sortOf(st.Field(i).Type()), fmt.Sprintf("%s_f%d", sv.Sort, i), sv)
}

func (so *Sorts) mkStruct(sort string, fields []Term) Term {
	if len(fields) == 0 {
		return Term{"mk_" + sort, sort}
	}
	return app(sort, "mk_"+sort, fields...)
}

func bvSort(w int) string { return fmt.Sprintf("(_ BitVec %d)", w) }

func isBV(s string) bool { return strings.HasPrefix(s, "(_ BitVec") }

func bvWidthOfSort(s string) int {
	var w int
	fmt.Sscanf(s, "(_ BitVec %d)", &w)
	return w
}

func intWidth(t types.Type) int {
	b, ok := t.Underlying().(*types.Basic)
	if !ok {
		return 64
	}
	switch b.Kind() {
	case types.Int8, types.Uint8:
		return 8
	case types.Int16, types.Uint16:
		return 16
	case types.Int32, types.Uint32:
		return 32
	}
	return 64
}

func isSignedInt(t types.Type) bool {
	if t == nil {
		return true
	}
	b, ok := t.Underlying().(*types.Basic)
	if !ok {
		return true
	}
	return b.Info()&types.IsUnsigned == 0
}

// bvLit renders integer n (decimal string, possibly negative) as a w-bit literal.
func bvLit(n string, w int) Term {
	x := new(big.Int)
	x.SetString(n, 10)
	m := new(big.Int).Lsh(big.NewInt(1), uint(w))
	x.Mod(x, m)
	return Term{fmt.Sprintf("(_ bv%s %d)", x.String(), w), bvSort(w)}
}

// bvToInt: mathematical value of a bit-vector (signed or unsigned reading).
func bvToInt(v Term, signed bool) Term {
	w := bvWidthOfSort(v.Sort)
	n := app(sInt, "bv2nat", v)
	if !signed {
		return n
	}
	m := new(big.Int).Lsh(big.NewInt(1), uint(w))
	return ite(app(sBool, "bvslt", v, bvLit("0", w)), sub(n, tIntS(m.String())), n)
}

func intToBV(v Term, w int) Term {
	return app(bvSort(w), fmt.Sprintf("(_ int2bv %d)", w), v)
}

// integer range facts
func intRange(t types.Type) (lo, hi string, ok bool) {
	b, isB := t.Underlying().(*types.Basic)
	if !isB || b.Info()&types.IsInteger == 0 {
		return "", "", false
	}
	switch b.Kind() {
	case types.Int8:
		return "-128", "127", true
	case types.Int16:
		return "-32768", "32767", true
	case types.Int32:
		return "-2147483648", "2147483647", true
	case types.Int, types.Int64:
		return "-9223372036854775808", "9223372036854775807", true
	case types.Uint8:
		return "0", "255", true
	case types.Uint16:
		return "0", "65535", true
	case types.Uint32:
		return "0", "4294967295", true
	case types.Uint, types.Uint64, types.Uintptr:
		return "0", "18446744073709551615", true
	}
	return "", "", false
}

func rangeFact(v Term, t types.Type) Term {
	lo, hi, ok := intRange(t)
	if !ok {
		return tTrue
	}
	return and(le(tIntS(lo), v), le(v, tIntS(hi)))
}

func sortedKeys[V any](m map[string]V) []string {
	ks := make([]string, 0, len(m))
	for k := range m {
		ks = append(ks, k)
	}
	sort.Strings(ks)
	return ks
}
