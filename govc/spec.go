package main

// Translation of contract expressions (Go syntax) into SMT terms.

import (
	"fmt"
	"go/ast"
	"go/constant"
	"go/token"
	"go/types"
	"strconv"
	"strings"

	"golang.org/x/tools/go/ssa"
)

type SV struct {
	t   Term
	typ types.Type // nil: untyped constant
}

type SpecCtx struct {
	ex     *Exec
	pkg    *ssa.Package
	vars   map[string]SV
	heap   *Heap
	old    *Heap
	clause *Clause
	inOld  bool
}

type specErr struct{ msg string }

func (sc *SpecCtx) fail(format string, a ...any) {
	where := ""
	if sc.clause != nil {
		where = fmt.Sprintf("%s:%d: ", sc.clause.File, sc.clause.Line)
	}
	panic(specErr{where + fmt.Sprintf(format, a...)})
}

func (sc *SpecCtx) q() *Q { return sc.ex.q }

func (sc *SpecCtx) evalBool(c *Clause) Term {
	sc.clause = c
	sc.q().noOblig++
	defer func() { sc.q().noOblig-- }()
	v := sc.eval(c.Expr)
	if v.t.Sort != sBool {
		sc.fail("clause is not boolean: %s", c.Text)
	}
	return v.t
}

func (sc *SpecCtx) evalInt(c *Clause) Term {
	sc.clause = c
	sc.q().noOblig++
	defer func() { sc.q().noOblig-- }()
	v := sc.eval(c.Expr)
	if v.t.Sort != sInt {
		sc.fail("clause is not integer: %s", c.Text)
	}
	return v.t
}

func (sc *SpecCtx) lookupPkg(name string) *types.Package {
	if sc.pkg != nil {
		for _, imp := range sc.pkg.Pkg.Imports() {
			if imp.Name() == name {
				return imp
			}
		}
		if sc.pkg.Pkg.Name() == name {
			return sc.pkg.Pkg
		}
	}
	// any loaded package by name
	for _, p := range sc.ex.P.prog.AllPackages() {
		if p.Pkg.Name() == name {
			return p.Pkg
		}
	}
	return nil
}

func (sc *SpecCtx) constSV(c *types.Const) SV {
	t := c.Type()
	val := c.Val()
	switch val.Kind() {
	case constant.Bool:
		if constant.BoolVal(val) {
			return SV{tTrue, t}
		}
		return SV{tFalse, t}
	case constant.Int:
		if s := sc.q().so.sortOf(t); isBV(s) {
			return SV{bvLit(val.ExactString(), bvWidthOfSort(s)), t}
		}
		return SV{tIntS(val.ExactString()), t}
	case constant.String:
		return SV{sc.q().strLit(constant.StringVal(val)), t}
	case constant.Float:
		if b, ok := t.Underlying().(*types.Basic); ok && b.Info()&types.IsInteger != 0 {
			return SV{tIntS(constant.ToInt(val).ExactString()), t}
		}
		f, _ := constant.Float64Val(val)
		return SV{fpConst(f), t}
	}
	sc.fail("unsupported constant %s", c.Name())
	return SV{}
}

func (sc *SpecCtx) typeByExpr(e ast.Expr) types.Type {
	switch x := e.(type) {
	case *ast.Ident:
		if o := types.Universe.Lookup(x.Name); o != nil {
			if tn, ok := o.(*types.TypeName); ok {
				return tn.Type()
			}
		}
		if sc.pkg != nil {
			if o := sc.pkg.Pkg.Scope().Lookup(x.Name); o != nil {
				if tn, ok := o.(*types.TypeName); ok {
					return tn.Type()
				}
			}
		}
	case *ast.SelectorExpr:
		if id, ok := x.X.(*ast.Ident); ok {
			if p := sc.lookupPkg(id.Name); p != nil {
				if o := p.Scope().Lookup(x.Sel.Name); o != nil {
					if tn, ok := o.(*types.TypeName); ok {
						return tn.Type()
					}
				}
			}
		}
	case *ast.StarExpr:
		if t := sc.typeByExpr(x.X); t != nil {
			return types.NewPointer(t)
		}
	case *ast.ParenExpr:
		return sc.typeByExpr(x.X)
	case *ast.ArrayType:
		if x.Len == nil {
			if t := sc.typeByExpr(x.Elt); t != nil {
				return types.NewSlice(t)
			}
		}
	}
	return nil
}

// deref loads the value a pointer-typed spec value points to.
func (sc *SpecCtx) deref(base SV) SV {
	q := sc.ex.q
	pt, ok := base.typ.Underlying().(*types.Pointer)
	if !ok {
		sc.fail("deref of non-pointer")
	}
	var l *Loc
	if _, isStruct := pt.Elem().Underlying().(*types.Struct); isStruct {
		l = &Loc{kind: lkObj, base: base.t, typ: pt.Elem()}
	} else if at, isArr := pt.Elem().Underlying().(*types.Array); isArr {
		l = &Loc{kind: lkArray, key: sc.ex.memKey(at.Elem()), base: base.t, typ: pt.Elem()}
	} else {
		s := q.so.sortOf(pt.Elem())
		l = &Loc{kind: lkCell, key: sc.ex.regKey("C:"+s, arrSort(sInt, s)), base: base.t, typ: pt.Elem()}
	}
	return SV{sc.ex.load(l, sc.curHeap()), pt.Elem()}
}

func (sc *SpecCtx) curHeap() *Heap {
	if sc.inOld {
		return sc.old
	}
	return sc.heap
}

func derefStruct(t types.Type) (types.Type, bool) {
	if p, ok := t.Underlying().(*types.Pointer); ok {
		return p.Elem(), true
	}
	return t, false
}

func findField(t types.Type, name string) (int, bool) {
	st, ok := t.Underlying().(*types.Struct)
	if !ok {
		return 0, false
	}
	for i := 0; i < st.NumFields(); i++ {
		if st.Field(i).Name() == name {
			return i, true
		}
	}
	return 0, false
}

func (sc *SpecCtx) eval(e ast.Expr) SV {
	q := sc.q()
	switch x := e.(type) {
	case *ast.ParenExpr:
		return sc.eval(x.X)
	case *ast.BasicLit:
		switch x.Kind {
		case token.INT:
			v := constant.MakeFromLiteral(x.Value, token.INT, 0)
			return SV{tIntS(v.ExactString()), nil}
		case token.CHAR:
			r, _, _, err := strconv.UnquoteChar(x.Value[1:len(x.Value)-1], '\'')
			if err != nil {
				sc.fail("bad char literal %s", x.Value)
			}
			return SV{tInt(int64(r)), nil}
		case token.STRING:
			s, err := strconv.Unquote(x.Value)
			if err != nil {
				sc.fail("bad string literal %s", x.Value)
			}
			return SV{q.strLit(s), types.Typ[types.String]}
		case token.FLOAT:
			f, _ := strconv.ParseFloat(x.Value, 64)
			return SV{fpConst(f), types.Typ[types.Float64]}
		}
	case *ast.Ident:
		switch x.Name {
		case "true":
			return SV{tTrue, types.Typ[types.Bool]}
		case "false":
			return SV{tFalse, types.Typ[types.Bool]}
		case "nil":
			return SV{tInt(0), types.Typ[types.UntypedNil]}
		}
		if v, ok := sc.vars[x.Name]; ok {
			// a captured variable (closure free variable): v.t is the address of its cell and the identifier
			// evaluates to the cell's content in the current (or old) heap
			if sc.ex.isFreeVarCell(x.Name, v) {
				return sc.deref(v)
			}
			return v
		}
		if sc.pkg == nil {
			sc.fail("unknown identifier %q", x.Name)
		}
		if o := sc.pkg.Pkg.Scope().Lookup(x.Name); o != nil {
			switch oo := o.(type) {
			case *types.Const:
				return sc.constSV(oo)
			case *types.Var:
				g := sc.pkg.Var(x.Name)
				if g != nil {
					l := sc.ex.locOf(g)
					return SV{sc.ex.load(l, sc.curHeap()), oo.Type()}
				}
			}
		}
		sc.fail("unknown identifier %q", x.Name)
	case *ast.SelectorExpr:
		if id, ok := x.X.(*ast.Ident); ok {
			if _, shadow := sc.vars[id.Name]; !shadow {
				if p := sc.lookupPkg(id.Name); p != nil {
					o := p.Scope().Lookup(x.Sel.Name)
					switch oo := o.(type) {
					case *types.Const:
						return sc.constSV(oo)
					case *types.Var:
						sp := sc.ex.P.prog.Package(p)
						if sp != nil {
							if g := sp.Var(x.Sel.Name); g != nil {
								l := sc.ex.locOf(g)
								return SV{sc.ex.load(l, sc.curHeap()), oo.Type()}
							}
						}
					}
					sc.fail("unknown qualified identifier %s.%s", id.Name, x.Sel.Name)
				}
			}
		}
		base := sc.eval(x.X)
		if base.typ == nil {
			sc.fail("selector on untyped value")
		}
		st, isPtr := derefStruct(base.typ)
		fi, ok := findField(st, x.Sel.Name)
		if !ok {
			// promoted field through embedded struct(s)
			if path, ft, ok2 := findPromoted(st, x.Sel.Name); ok2 {
				cur := base
				for _, i := range path {
					cur = sc.selectField(cur, i)
				}
				_ = ft
				return cur
			}
			sc.fail("no field %s in %s", x.Sel.Name, st)
		}
		_ = isPtr
		return sc.selectField(base, fi)
	case *ast.StarExpr:
		return sc.deref(sc.eval(x.X))
	case *ast.IndexExpr:
		base := sc.eval(x.X)
		idx := sc.eval(x.Index)
		if isBV(idx.t.Sort) {
			idx = SV{bvToInt(idx.t, isSignedInt(idx.typ)), idx.typ}
		}
		switch bt := base.typ.Underlying().(type) {
		case *types.Slice:
			m := q.heapGet(sc.curHeap(), sc.ex.memKey(bt.Elem()))
			return SV{sel(sel(m, slBase(base.t)), add(slOff(base.t), idx.t)), bt.Elem()}
		case *types.Basic:
			return SV{strAt(base.t, idx.t), types.Typ[types.Uint8]}
		case *types.Array:
			return SV{sel(base.t, idx.t), bt.Elem()}
		case *types.Map:
			hk, vk := sc.ex.mapKeys(bt)
			has := and(not(eq(base.t, tInt(0))), sel(sel(q.heapGet(sc.curHeap(), hk), base.t), idx.t))
			return SV{ite(has, sel(sel(q.heapGet(sc.curHeap(), vk), base.t), idx.t), sc.ex.zero(bt.Elem())), bt.Elem()}
		case *types.Pointer:
			if at, ok := bt.Elem().Underlying().(*types.Array); ok {
				l := &Loc{kind: lkArray, key: sc.ex.memKey(at.Elem()), base: base.t, typ: bt.Elem()}
				return SV{sel(sc.ex.load(l, sc.curHeap()), idx.t), at.Elem()}
			}
		}
		sc.fail("index on %s", base.typ)
	case *ast.SliceExpr:
		base := sc.eval(x.X)
		var lo, hi Term
		lo = tInt(0)
		if x.Low != nil {
			lo = sc.eval(x.Low).t
		}
		switch base.typ.Underlying().(type) {
		case *types.Slice:
			hi = slLen(base.t)
			if x.High != nil {
				hi = sc.eval(x.High).t
			}
			return SV{mkSlice(slBase(base.t), add(slOff(base.t), lo), sub(hi, lo), sub(slCap(base.t), lo)), base.typ}
		case *types.Basic:
			hi = strLen(base.t)
			if x.High != nil {
				hi = sc.eval(x.High).t
			}
			return SV{mkStr(strData(base.t), add(strOff(base.t), lo), sub(hi, lo)), base.typ}
		}
		sc.fail("slice expr on %s", base.typ)
	case *ast.UnaryExpr:
		v := sc.eval(x.X)
		switch x.Op {
		case token.NOT:
			return SV{not(v.t), v.typ}
		case token.SUB:
			if v.t.Sort == sF64 {
				return SV{app(sF64, "fp.neg", v.t), v.typ}
			}
			if isBV(v.t.Sort) {
				return SV{app(v.t.Sort, "bvneg", v.t), v.typ}
			}
			return SV{app(sInt, "-", v.t), v.typ}
		case token.ADD:
			return v
		}
		sc.fail("unary %s", x.Op)
	case *ast.BinaryExpr:
		return sc.binary(x)
	case *ast.CallExpr:
		return sc.call(x)
	case *ast.TypeAssertExpr:
		v := sc.eval(x.X)
		t := sc.typeByExpr(x.Type)
		if t == nil {
			sc.fail("unknown type in assertion")
		}
		return SV{sc.ex.unbox(t, v.t), t}
	}
	sc.fail("unsupported spec expression %T", e)
	return SV{}
}

func findPromoted(st types.Type, name string) ([]int, types.Type, bool) {
	u, ok := st.Underlying().(*types.Struct)
	if !ok {
		return nil, nil, false
	}
	for i := 0; i < u.NumFields(); i++ {
		f := u.Field(i)
		if !f.Embedded() {
			continue
		}
		ft, _ := derefStruct(f.Type())
		if j, ok := findField(ft, name); ok {
			return []int{i, j}, ft.Underlying().(*types.Struct).Field(j).Type(), true
		}
		if p, t, ok := findPromoted(ft, name); ok {
			return append([]int{i}, p...), t, true
		}
	}
	return nil, nil, false
}

func (sc *SpecCtx) selectField(base SV, fi int) SV {
	q := sc.q()
	st, isPtr := derefStruct(base.typ)
	u := st.Underlying().(*types.Struct)
	ft := u.Field(fi).Type()
	if isPtr {
		l := sc.ex.fieldLoc(base.t, st, fi, nil)
		return SV{sel(q.heapGet(sc.curHeap(), l.key), l.base), ft}
	}
	return SV{q.so.structField(base.t, u, fi), ft}
}

func isUntyped(v SV) bool {
	if v.typ == nil {
		return true
	}
	b, ok := v.typ.(*types.Basic)
	return ok && b.Info()&types.IsUntyped != 0
}

// litToBV turns an untyped integer literal term ("5", "(- 5)") into a bit-vector literal of width w.
func litToBV(t Term, w int) (Term, bool) {
	n := t.S
	if strings.HasPrefix(n, "(- ") && strings.HasSuffix(n, ")") {
		n = "-" + n[3:len(n)-1]
	}
	for i, c := range n {
		if !(c >= '0' && c <= '9') && !(i == 0 && c == '-') {
			return Term{}, false
		}
	}
	return bvLit(n, w), true
}

// coerce brings two operands to a common sort (bit-vector mode: Int literals / Int-sorted lengths to BV).
func (sc *SpecCtx) coerce(a, b SV) (SV, SV) {
	if isBV(a.t.Sort) && b.t.Sort == sInt {
		w := bvWidthOfSort(a.t.Sort)
		if l, ok := litToBV(b.t, w); ok {
			return a, SV{l, a.typ}
		}
		return a, SV{intToBV(b.t, w), a.typ}
	}
	if isBV(b.t.Sort) && a.t.Sort == sInt {
		b2, a2 := sc.coerce(b, a)
		return a2, b2
	}
	if isBV(a.t.Sort) && isBV(b.t.Sort) && a.t.Sort != b.t.Sort {
		wa, wb := bvWidthOfSort(a.t.Sort), bvWidthOfSort(b.t.Sort)
		if wa < wb {
			a = SV{sc.ex.bvResize(a.t, wb, isSignedInt(a.typ)), b.typ}
		} else {
			b = SV{sc.ex.bvResize(b.t, wa, isSignedInt(b.typ)), a.typ}
		}
	}
	return a, b
}

func (sc *SpecCtx) bvBinary(op token.Token, a, b SV) SV {
	boolT := types.Typ[types.Bool]
	srt := a.t.Sort
	signed := isSignedInt(a.typ)
	pick := func(s, u string) string {
		if signed {
			return s
		}
		return u
	}
	switch op {
	case token.ADD:
		return SV{app(srt, "bvadd", a.t, b.t), a.typ}
	case token.SUB:
		return SV{app(srt, "bvsub", a.t, b.t), a.typ}
	case token.MUL:
		return SV{app(srt, "bvmul", a.t, b.t), a.typ}
	case token.QUO:
		return SV{app(srt, pick("bvsdiv", "bvudiv"), a.t, b.t), a.typ}
	case token.REM:
		return SV{app(srt, pick("bvsrem", "bvurem"), a.t, b.t), a.typ}
	case token.AND:
		return SV{app(srt, "bvand", a.t, b.t), a.typ}
	case token.OR:
		return SV{app(srt, "bvor", a.t, b.t), a.typ}
	case token.XOR:
		return SV{app(srt, "bvxor", a.t, b.t), a.typ}
	case token.SHL:
		return SV{app(srt, "bvshl", a.t, b.t), a.typ}
	case token.SHR:
		return SV{app(srt, pick("bvashr", "bvlshr"), a.t, b.t), a.typ}
	case token.EQL:
		return SV{eq(a.t, b.t), boolT}
	case token.NEQ:
		return SV{not(eq(a.t, b.t)), boolT}
	case token.LSS:
		return SV{app(sBool, pick("bvslt", "bvult"), a.t, b.t), boolT}
	case token.LEQ:
		return SV{app(sBool, pick("bvsle", "bvule"), a.t, b.t), boolT}
	case token.GTR:
		return SV{app(sBool, pick("bvsgt", "bvugt"), a.t, b.t), boolT}
	case token.GEQ:
		return SV{app(sBool, pick("bvsge", "bvuge"), a.t, b.t), boolT}
	}
	sc.fail("unsupported bit-vector operator %s", op)
	return SV{}
}

func (sc *SpecCtx) binary(x *ast.BinaryExpr) SV {
	q := sc.q()
	switch x.Op {
	case token.LAND:
		return SV{and(sc.eval(x.X).t, sc.eval(x.Y).t), types.Typ[types.Bool]}
	case token.LOR:
		return SV{or(sc.eval(x.X).t, sc.eval(x.Y).t), types.Typ[types.Bool]}
	}
	a, b := sc.eval(x.X), sc.eval(x.Y)
	if isBV(a.t.Sort) || isBV(b.t.Sort) {
		if (isBV(a.t.Sort) || a.t.Sort == sInt) && (isBV(b.t.Sort) || b.t.Sort == sInt) {
			a, b = sc.coerce(a, b)
			return sc.bvBinary(x.Op, a, b)
		}
	}
	rt := a.typ
	if isUntyped(a) {
		rt = b.typ
	}
	boolT := types.Typ[types.Bool]
	if a.t.Sort != b.t.Sort {
		// untyped int constant against float
		if a.t.Sort == sF64 && b.t.Sort == sInt && isUntyped(b) {
			b = SV{app(sF64, "(_ to_fp 11 53) RNE", app("Real", "to_real", b.t)), a.typ}
		} else if b.t.Sort == sF64 && a.t.Sort == sInt && isUntyped(a) {
			a = SV{app(sF64, "(_ to_fp 11 53) RNE", app("Real", "to_real", a.t)), b.typ}
		} else if a.t.Sort == sIface && isUntyped(b) && b.t.S == "0" {
			// iface == nil
			switch x.Op {
			case token.EQL:
				return SV{eq(ifTag(a.t), tInt(0)), boolT}
			case token.NEQ:
				return SV{not(eq(ifTag(a.t), tInt(0))), boolT}
			}
		} else if a.t.Sort == sSlice && isUntyped(b) && b.t.S == "0" {
			switch x.Op {
			case token.EQL:
				return SV{eq(slBase(a.t), tInt(0)), boolT}
			case token.NEQ:
				return SV{not(eq(slBase(a.t), tInt(0))), boolT}
			}
		} else {
			sc.fail("sort mismatch in %s: %s vs %s", x.Op, a.t.Sort, b.t.Sort)
		}
	}
	switch a.t.Sort {
	case sInt:
		switch x.Op {
		case token.ADD:
			return SV{add(a.t, b.t), rt}
		case token.SUB:
			return SV{sub(a.t, b.t), rt}
		case token.MUL:
			return SV{app(sInt, "*", a.t, b.t), rt}
		case token.QUO:
			return SV{app(sInt, "tdiv", a.t, b.t), rt}
		case token.REM:
			return SV{app(sInt, "tmod", a.t, b.t), rt}
		case token.EQL:
			return SV{eq(a.t, b.t), boolT}
		case token.NEQ:
			return SV{not(eq(a.t, b.t)), boolT}
		case token.LSS:
			return SV{lt(a.t, b.t), boolT}
		case token.LEQ:
			return SV{le(a.t, b.t), boolT}
		case token.GTR:
			return SV{lt(b.t, a.t), boolT}
		case token.GEQ:
			return SV{le(b.t, a.t), boolT}
		case token.AND:
			return SV{app(sInt, "uf_and", a.t, b.t), rt}
		case token.OR:
			return SV{app(sInt, "uf_or", a.t, b.t), rt}
		case token.XOR:
			return SV{app(sInt, "uf_xor", a.t, b.t), rt}
		case token.SHL:
			return SV{app(sInt, "uf_shl", a.t, b.t), rt}
		case token.SHR:
			return SV{app(sInt, "uf_shr", a.t, b.t), rt}
		}
	case sBool:
		switch x.Op {
		case token.EQL:
			return SV{eq(a.t, b.t), boolT}
		case token.NEQ:
			return SV{not(eq(a.t, b.t)), boolT}
		}
	case sStr:
		switch x.Op {
		case token.EQL:
			return SV{q.strEq(a.t, b.t), boolT}
		case token.NEQ:
			return SV{not(q.strEq(a.t, b.t)), boolT}
		case token.ADD:
			return SV{app(sStr, "uf_concat", a.t, b.t), rt}
		}
	case sF64:
		ops := map[token.Token]string{token.EQL: "fp.eq", token.LSS: "fp.lt", token.LEQ: "fp.leq", token.GTR: "fp.gt", token.GEQ: "fp.geq"}
		if op, ok := ops[x.Op]; ok {
			return SV{app(sBool, op, a.t, b.t), boolT}
		}
		if x.Op == token.NEQ {
			return SV{not(app(sBool, "fp.eq", a.t, b.t)), boolT}
		}
		aops := map[token.Token]string{token.ADD: "fp.add RNE", token.SUB: "fp.sub RNE", token.MUL: "fp.mul RNE", token.QUO: "fp.div RNE"}
		if op, ok := aops[x.Op]; ok {
			return SV{app(sF64, op, a.t, b.t), rt}
		}
	default:
		switch x.Op {
		case token.EQL:
			return SV{eq(a.t, b.t), boolT}
		case token.NEQ:
			return SV{not(eq(a.t, b.t)), boolT}
		}
	}
	sc.fail("unsupported binary %s on %s", x.Op, a.t.Sort)
	return SV{}
}

func (sc *SpecCtx) quant(kind string, x *ast.CallExpr) SV {
	if len(x.Args) != 3 {
		sc.fail("%s(lo, hi, func(k int) bool {...})", kind)
	}
	loV, hiV := sc.eval(x.Args[0]), sc.eval(x.Args[1])
	if isBV(loV.t.Sort) {
		loV = SV{bvToInt(loV.t, isSignedInt(loV.typ)), nil}
	}
	if isBV(hiV.t.Sort) {
		hiV = SV{bvToInt(hiV.t, isSignedInt(hiV.typ)), nil}
	}
	lo, hi := loV.t, hiV.t
	fl, ok := x.Args[2].(*ast.FuncLit)
	if !ok || len(fl.Type.Params.List) != 1 || len(fl.Type.Params.List[0].Names) != 1 || len(fl.Body.List) != 1 {
		sc.fail("%s: third argument must be func(k int) bool { return ... }", kind)
	}
	rs, ok := fl.Body.List[0].(*ast.ReturnStmt)
	if !ok || len(rs.Results) != 1 {
		sc.fail("%s: body must be a single return", kind)
	}
	name := fl.Type.Params.List[0].Names[0].Name
	sc.q().nfresh++
	bv := Term{fmt.Sprintf("%s!q%d", name, sc.q().nfresh), sInt}
	saved, had := sc.vars[name]
	// the bound variable is a mathematical integer; in bit-vector mode it is given an untyped (literal-like)
	// type so that it can index and be compared with lengths
	sc.vars[name] = SV{bv, nil}
	if !sc.q().so.bv {
		sc.vars[name] = SV{bv, types.Typ[types.Int]}
	}
	sc.q().pureDepth++
	body := sc.eval(rs.Results[0]).t
	sc.q().pureDepth--
	if had {
		sc.vars[name] = saved
	} else {
		delete(sc.vars, name)
	}
	rng := and(le(lo, bv), lt(bv, hi))
	if kind == "forall" {
		return SV{Term{fmt.Sprintf("(forall ((%s Int)) %s)", bv.S, implies(rng, body).S), sBool}, types.Typ[types.Bool]}
	}
	return SV{Term{fmt.Sprintf("(exists ((%s Int)) %s)", bv.S, and(rng, body).S), sBool}, types.Typ[types.Bool]}
}

// forallv(func(k T) bool { return ... }): universal quantification over all values of sort(T).
func (sc *SpecCtx) quantv(x *ast.CallExpr) SV {
	if len(x.Args) != 1 {
		sc.fail("forallv(func(k T) bool {...})")
	}
	fl, ok := x.Args[0].(*ast.FuncLit)
	if !ok || len(fl.Type.Params.List) != 1 || len(fl.Type.Params.List[0].Names) != 1 || len(fl.Body.List) != 1 {
		sc.fail("forallv: argument must be func(k T) bool { return ... }")
	}
	rs, ok := fl.Body.List[0].(*ast.ReturnStmt)
	if !ok || len(rs.Results) != 1 {
		sc.fail("forallv: body must be a single return")
	}
	t := sc.typeByExpr(fl.Type.Params.List[0].Type)
	if t == nil {
		sc.fail("forallv: unknown type")
	}
	name := fl.Type.Params.List[0].Names[0].Name
	sc.q().nfresh++
	srt := sc.q().so.sortOf(t)
	bv := Term{fmt.Sprintf("%s!q%d", name, sc.q().nfresh), srt}
	saved, had := sc.vars[name]
	sc.vars[name] = SV{bv, t}
	sc.q().pureDepth++
	body := sc.eval(rs.Results[0]).t
	sc.q().pureDepth--
	if had {
		sc.vars[name] = saved
	} else {
		delete(sc.vars, name)
	}
	return SV{Term{fmt.Sprintf("(forall ((%s %s)) %s)", bv.S, srt, body.S), sBool}, types.Typ[types.Bool]}
}

func (sc *SpecCtx) call(x *ast.CallExpr) SV {
	q := sc.q()
	boolT := types.Typ[types.Bool]
	if id, ok := x.Fun.(*ast.Ident); ok {
		if _, shadow := sc.vars[id.Name]; !shadow {
			switch id.Name {
			case "old":
				if sc.old == nil {
					sc.fail("old() not available here")
				}
				save := sc.inOld
				sc.inOld = true
				v := sc.eval(x.Args[0])
				sc.inOld = save
				return v
			case "forall", "exists":
				return sc.quant(id.Name, x)
			case "forallv":
				return sc.quantv(x)
			case "rangepos":
				// rangepos(n): byte position of the n-th string range iterator of the function
				n := 1
				if len(x.Args) == 1 {
					if bl, ok := x.Args[0].(*ast.BasicLit); ok {
						n, _ = strconv.Atoi(bl.Value)
					}
				}
				if n < 1 || n > len(sc.ex.strIters) {
					sc.fail("rangepos(%d): no such string iterator (yet)", n)
				}
				it := sc.ex.val(sc.ex.strIters[n-1])
				return SV{sel(q.heapGet(sc.curHeap(), sc.ex.regKey("IT:pos", arrSort(sInt, sInt))), it), types.Typ[types.Int]}
			case "ghost":
				// ghost("name", ref): ghost (specification-only) integer state attached to a reference
				bl, ok := x.Args[0].(*ast.BasicLit)
				if !ok || len(x.Args) != 2 {
					sc.fail("ghost(\"name\", ref)")
				}
				name, _ := strconv.Unquote(bl.Value)
				key := sc.ex.regKey("GH:"+name, arrSort(sInt, sInt))
				r := sc.eval(x.Args[1])
				return SV{sel(q.heapGet(sc.curHeap(), key), r.t), types.Typ[types.Int]}
			case "ifaceval":
				v := sc.eval(x.Args[0])
				if v.t.Sort != sIface {
					sc.fail("ifaceval of non-interface")
				}
				return SV{ifVal(v.t), types.Typ[types.Int]}
			case "uf":
				// uf("name", args...): uninterpreted integer-valued specification function
				bl, ok := x.Args[0].(*ast.BasicLit)
				if !ok {
					sc.fail("uf(\"name\", args...)")
				}
				name, _ := strconv.Unquote(bl.Value)
				var args []Term
				sig := "("
				for i, a := range x.Args[1:] {
					v := sc.eval(a)
					args = append(args, v.t)
					if i > 0 {
						sig += " "
					}
					sig += v.t.Sort
				}
				sig += ") Int"
				q.declFun("ufs_"+sanitize(name), sig)
				return SV{app(sInt, "ufs_"+sanitize(name), args...), types.Typ[types.Int]}
			case "ghostconst":
				// ghostconst("name"): a global uninterpreted integer constant shared by all contracts
				bl, ok := x.Args[0].(*ast.BasicLit)
				if !ok {
					sc.fail("ghostconst needs a string literal")
				}
				name, _ := strconv.Unquote(bl.Value)
				q.declFun("ghost_"+sanitize(name), "() Int")
				return SV{Term{"ghost_" + sanitize(name), sInt}, types.Typ[types.Int]}
			case "same":
				a, b := sc.eval(x.Args[0]), sc.eval(x.Args[1])
				return SV{eq(a.t, b.t), boolT}
			case "sameblock":
				// the two slices share their backing block
				a, b := sc.eval(x.Args[0]), sc.eval(x.Args[1])
				return SV{eq(slBase(a.t), slBase(b.t)), boolT}
			case "pair2":
				a, b := sc.eval(x.Args[0]), sc.eval(x.Args[1])
				as := arrSort(sInt, sInt)
				return SV{store(store(Term{"((as const " + as + ") 0)", as}, tInt(0), a.t), tInt(1), b.t), types.NewArray(types.Typ[types.Uint8], 2)}
			case "has":
				// has(m, k): key present in map
				m, k := sc.eval(x.Args[0]), sc.eval(x.Args[1])
				mt, ok := m.typ.Underlying().(*types.Map)
				if !ok {
					sc.fail("has: not a map")
				}
				hk, _ := sc.ex.mapKeys(mt)
				return SV{and(not(eq(m.t, tInt(0))), sel(sel(q.heapGet(sc.curHeap(), hk), m.t), k.t)), boolT}
			case "implies":
				return SV{implies(sc.eval(x.Args[0]).t, sc.eval(x.Args[1]).t), boolT}
			case "iff":
				return SV{eq(sc.eval(x.Args[0]).t, sc.eval(x.Args[1]).t), boolT}
			case "ite":
				c, a, b := sc.eval(x.Args[0]), sc.eval(x.Args[1]), sc.eval(x.Args[2])
				a, b = sc.coerce(a, b)
				rt := a.typ
				if isUntyped(a) {
					rt = b.typ
				}
				return SV{ite(c.t, a.t, b.t), rt}
			case "len":
				v := sc.eval(x.Args[0])
				intT := types.Typ[types.Int]
				switch v.t.Sort {
				case sStr:
					return SV{sc.ex.asVal(strLen(v.t), intT), intT}
				case sSlice:
					return SV{sc.ex.asVal(slLen(v.t), intT), intT}
				}
				if at, ok := v.typ.Underlying().(*types.Array); ok {
					return SV{sc.ex.intLit(at.Len(), intT), intT}
				}
				sc.fail("len of %s", v.t.Sort)
			case "cap":
				v := sc.eval(x.Args[0])
				return SV{sc.ex.asVal(slCap(v.t), types.Typ[types.Int]), types.Typ[types.Int]}
			case "min", "max":
				a, b := sc.eval(x.Args[0]), sc.eval(x.Args[1])
				a, b = sc.coerce(a, b)
				var c Term
				if isBV(a.t.Sort) {
					c = sc.bvBinary(token.LEQ, a, b).t
				} else {
					c = le(a.t, b.t)
				}
				if id.Name == "min" {
					return SV{ite(c, a.t, b.t), a.typ}
				}
				return SV{ite(c, b.t, a.t), a.typ}
			case "string":
				v := sc.eval(x.Args[0])
				switch v.t.Sort {
				case sStr:
					return v
				case sSlice:
					et := v.typ.Underlying().(*types.Slice).Elem()
					data := sel(q.heapGet(sc.curHeap(), sc.ex.memKey(et)), slBase(v.t))
					return SV{mkStr(data, slOff(v.t), slLen(v.t)), types.Typ[types.String]}
				}
				sc.fail("string() of %s", v.t.Sort)
			case "int", "int64", "byte", "uint8", "int32", "rune", "uint", "uint64", "int8", "int16", "uint16", "uint32", "float64":
				v := sc.eval(x.Args[0])
				to := types.Universe.Lookup(id.Name).Type()
				return SV{sc.convertTerm(v, to), to}
			case "dyntag":
				v := sc.eval(x.Args[0])
				return SV{ifTag(v.t), types.Typ[types.Int]}
			case "isType":
				// isType(x, T): dynamic type of interface x is T
				v := sc.eval(x.Args[0])
				t := sc.typeByExpr(x.Args[1])
				if t == nil {
					sc.fail("isType: unknown type")
				}
				return SV{eq(ifTag(v.t), tInt(int64(q.so.tag(t)))), boolT}
			case "allocated":
				v := sc.eval(x.Args[0])
				if v.t.Sort == sSlice {
					v.t = slBase(v.t) // a slice: its backing block
				}
				return SV{and(lt(tInt(0), v.t), lt(v.t, q.heapGet(sc.curHeap(), allocKey))), boolT}
			case "freshref":
				// allocated now, but not in the old state (a slice: its backing block)
				v := sc.eval(x.Args[0])
				if v.t.Sort == sSlice {
					v.t = slBase(v.t)
				}
				return SV{and(le(q.heapGet(sc.old, allocKey), v.t), lt(v.t, q.heapGet(sc.heap, allocKey))), boolT}
			case "captured":
				// captured(w): the call that binds witness w was executed on this path
				id, ok := x.Args[0].(*ast.Ident)
				if !ok {
					sc.fail("captured: witness name expected")
				}
				if v, ok := sc.vars[id.Name+"$captured"]; ok {
					return v
				}
				sc.fail("captured: %s is not a witness", id.Name)
			case "memsame":
				// memsame(T): no element of a []T / [n]T block that existed in the old state has changed
				t := sc.typeByExpr(x.Args[0])
				if t == nil {
					sc.fail("memsame: unknown type")
				}
				key := sc.ex.memKey(t)
				a0 := q.heapGet(sc.old, allocKey)
				mNew, mOld := q.heapGet(sc.heap, key), q.heapGet(sc.old, key)
				return SV{Term{fmt.Sprintf("(forall ((b Int)) (! (=> (and (< b %s) (< (- (* 64 %s)) b)) (= (select %s b) (select %s b))) :pattern ((select %s b))))",
					a0.S, a0.S, mNew.S, mOld.S, mNew.S), sBool}, boolT}
			case "streq":
				a, b := sc.eval(x.Args[0]), sc.eval(x.Args[1])
				return SV{q.strEq(a.t, b.t), boolT}
			}
			d := sc.ex.P.contracts.Defines["."+id.Name]
			if sc.pkg != nil {
				if d2 := sc.ex.P.contracts.Defines[sc.pkg.Pkg.Path()+"."+id.Name]; d2 != nil {
					d = d2
				}
			}
			if d != nil {
				if len(d.Params) != len(x.Args) {
					sc.fail("define %s: want %d args", d.Name, len(d.Params))
				}
				saved := map[string]*SV{}
				var argv []SV
				for _, a := range x.Args {
					argv = append(argv, sc.eval(a))
				}
				for i, pn := range d.Params {
					if old, ok := sc.vars[pn]; ok {
						o := old
						saved[pn] = &o
					} else {
						saved[pn] = nil
					}
					sc.vars[pn] = argv[i]
				}
				v := sc.eval(d.Body)
				for pn, o := range saved {
					if o == nil {
						delete(sc.vars, pn)
					} else {
						sc.vars[pn] = *o
					}
				}
				return v
			}
			// package-level function
			if sc.pkg == nil {
				sc.fail("unknown function %s", id.Name)
			}
			if f := sc.pkg.Func(id.Name); f != nil {
				var args []SV
				for _, a := range x.Args {
					args = append(args, sc.eval(a))
				}
				return sc.callPure(f, args)
			}
			sc.fail("unknown function %s", id.Name)
		}
	}
	if sel, ok := x.Fun.(*ast.SelectorExpr); ok {
		// pkg.Func(...) or recv.Method(...)
		if id, ok := sel.X.(*ast.Ident); ok {
			if _, shadow := sc.vars[id.Name]; !shadow {
				if p := sc.lookupPkg(id.Name); p != nil {
					sp := sc.ex.P.prog.Package(p)
					if d := sc.ex.P.contracts.Defines[p.Path()+"."+sel.Sel.Name]; d != nil && sp != nil {
						var argv []SV
						for _, a := range x.Args {
							argv = append(argv, sc.eval(a))
						}
						sub := &SpecCtx{ex: sc.ex, pkg: sp, vars: map[string]SV{}, heap: sc.heap, old: sc.old, clause: sc.clause, inOld: sc.inOld}
						for i, pn := range d.Params {
							sub.vars[pn] = argv[i]
						}
						return sub.eval(d.Body)
					}
					if sp != nil {
						if f := sp.Func(sel.Sel.Name); f != nil {
							var args []SV
							for _, a := range x.Args {
								args = append(args, sc.eval(a))
							}
							return sc.callPure(f, args)
						}
					}
					// conversion pkg.Type(x)
					if t := sc.typeByExpr(sel); t != nil && len(x.Args) == 1 {
						v := sc.eval(x.Args[0])
						return SV{v.t, t}
					}
					sc.fail("unknown function %s.%s", id.Name, sel.Sel.Name)
				}
			}
		}
		recv := sc.eval(sel.X)
		if recv.typ == nil {
			sc.fail("method call on untyped value")
		}
		if _, isIface := recv.typ.Underlying().(*types.Interface); isIface {
			var args []Term
			for _, a := range x.Args {
				args = append(args, sc.eval(a).t)
			}
			return sc.ex.ifaceMethodTerm(recv.t, recv.typ, sel.Sel.Name, args, sc.curHeap())
		}
		f := sc.ex.P.lookupMethod(recv.typ, sel.Sel.Name)
		if f == nil {
			sc.fail("no method %s on %s", sel.Sel.Name, recv.typ)
		}
		args := []SV{recv}
		// adjust receiver pointer/value
		if _, wantPtr := f.Params[0].Type().Underlying().(*types.Pointer); !wantPtr {
			if pt, isPtr := recv.typ.Underlying().(*types.Pointer); isPtr {
				l := &Loc{kind: lkObj, base: recv.t, typ: pt.Elem()}
				args[0] = SV{sc.ex.load(l, sc.curHeap()), pt.Elem()}
			}
		}
		for _, a := range x.Args {
			args = append(args, sc.eval(a))
		}
		return sc.callPure(f, args)
	}
	// conversion like (T)(x)
	if t := sc.typeByExpr(x.Fun); t != nil && len(x.Args) == 1 {
		v := sc.eval(x.Args[0])
		return SV{v.t, t}
	}
	sc.fail("unsupported call %v", x.Fun)
	return SV{}
}

// callPure evaluates a loop-free side-effect-free function as a term over the current spec heap.
func (sc *SpecCtx) callPure(f *ssa.Function, args []SV) SV {
	q := sc.q()
	if len(args) != len(f.Params) {
		sc.fail("%s: want %d args, got %d", f.Name(), len(f.Params), len(args))
	}
	var res types.Type
	if f.Signature.Results().Len() == 1 {
		res = f.Signature.Results().At(0).Type()
	} else {
		sc.fail("pure call %s must have exactly one result", f.Name())
	}
	// contract-defined uninterpreted spec function?
	if c := sc.ex.P.contracts.get(funcKey(f)); c != nil && (c.Opaque || sc.ex.P.loops(f).hasLoops()) {
		return SV{sc.ex.specFunApp(f, c, termsOf(args), sc.curHeap()), res}
	}
	if sc.ex.P.loops(f).hasLoops() {
		sc.fail("function %s has loops and no contract: cannot be used in specs", f.Name())
	}
	ex2 := newExec(q, f, sc.ex)
	ex2.skipSafety = true
	for i, a := range args {
		t := a.t
		// untyped constant passed for float parameter etc.
		_ = i
		ex2.params = append(ex2.params, t)
	}
	ex2.entryHeap = sc.curHeap()
	ex2.entryReach = tTrue
	q.pureDepth++
	q.noOblig++
	func() {
		defer func() {
			q.pureDepth--
			q.noOblig--
		}()
		ex2.run()
	}()
	if len(ex2.rets) == 0 {
		sc.fail("pure call %s never returns", f.Name())
	}
	n := len(ex2.rets)
	t := ex2.rets[n-1].vals[0]
	for i := n - 2; i >= 0; i-- {
		t = ite(ex2.rets[i].reach, ex2.rets[i].vals[0], t)
	}
	return SV{t, res}
}

func termsOf(vs []SV) []Term {
	var ts []Term
	for _, v := range vs {
		ts = append(ts, v.t)
	}
	return ts
}

var _ = strings.Contains

// convertTerm: Go conversion T(x) between numeric types in specs.
func (sc *SpecCtx) convertTerm(v SV, to types.Type) Term {
	q := sc.q()
	ts := q.so.sortOf(to)
	fs := v.t.Sort
	switch {
	case fs == ts && !isBV(ts):
		return v.t
	case isBV(fs) && isBV(ts):
		return sc.ex.bvResize(v.t, bvWidthOfSort(ts), isSignedInt(v.typ))
	case fs == sInt && isBV(ts):
		if l, ok := litToBV(v.t, bvWidthOfSort(ts)); ok {
			return l
		}
		return intToBV(v.t, bvWidthOfSort(ts))
	case isBV(fs) && ts == sF64:
		if isSignedInt(v.typ) {
			return app(sF64, "(_ to_fp 11 53) RNE", v.t)
		}
		return app(sF64, "(_ to_fp_unsigned 11 53) RNE", v.t)
	case fs == sInt && ts == sF64:
		return app(sF64, "(_ to_fp 11 53) RNE", app("Real", "to_real", v.t))
	case fs == sF64 && isBV(ts):
		return app(ts, fmt.Sprintf("(_ fp.to_sbv %d) RTZ", bvWidthOfSort(ts)), v.t)
	}
	return v.t
}
