package main

// Calls: builtins, contracts (modular), inlining of loop-free callees, havoc otherwise.

import (
	"fmt"
	"go/token"
	"go/types"
	"strings"

	"golang.org/x/tools/go/ssa"
)

const maxInlineDepth = 5

// smallEnough: only small loop-free helpers are verified in place; anything bigger needs a contract
// (or is abstracted by its computed write effects).
func smallEnough(f *ssa.Function) bool {
	n := 0
	for _, b := range f.Blocks {
		n += len(b.Instrs)
	}
	return len(f.Blocks) <= 16 && n <= 120
}

func (ex *Exec) setResults(x ssa.Value, sig *types.Signature, rs []Term) {
	n := sig.Results().Len()
	switch {
	case n == 0:
	case n == 1:
		ex.vals[x] = rs[0]
	default:
		ex.tuples[x] = rs
	}
}

func (ex *Exec) call(x ssa.Value, cc *ssa.CallCommon, h *Heap, reach Term) {
	ex.callAt(x, cc, h, reach)
}

func (ex *Exec) callAt(x ssa.Value, cc *ssa.CallCommon, h *Heap, reach Term) {
	if cc.IsInvoke() {
		ex.invoke(x, cc, h, reach)
		return
	}
	switch f := cc.Value.(type) {
	case *ssa.Builtin:
		ex.builtin(x, f, cc, h, reach)
		return
	case *ssa.Function:
		var args []Term
		for _, a := range cc.Args {
			if _, isLoc := ex.locs[a]; isLoc {
				unsupported("interior pointer passed to %s in %s", f.Name(), ex.fn.Name())
			}
			args = append(args, ex.val(a))
		}
		rs := ex.callFunc(f, args, nil, cc, h, reach, x)
		ex.setResults(x, f.Signature, rs)
		return
	case *ssa.MakeClosure:
		fn := f.Fn.(*ssa.Function)
		var args, fvs []Term
		for _, a := range cc.Args {
			args = append(args, ex.val(a))
		}
		for _, b := range f.Bindings {
			if _, isLoc := ex.locs[b]; isLoc {
				unsupported("closure capturing interior pointer")
			}
			fvs = append(fvs, ex.val(b))
		}
		rs := ex.callFunc(fn, args, fvs, cc, h, reach, x)
		ex.setResults(x, fn.Signature, rs)
		return
	}
	// dynamic call through a function value
	sig := cc.Value.Type().Underlying().(*types.Signature)
	if ins, ok := x.(ssa.Instruction); ok {
		ex.safety("safe.nilfunc", reach, not(eq(ex.val(cc.Value), tInt(0))), ins, "call of a nil function value "+cc.Value.Name())
	}
	fld := ""
	var dynVars map[string]SV
	var dynPre *Heap
	if ex.depth == 0 && ex.contract != nil && len(ex.contract.DynCalls) > 0 {
		var owner, lookupKey ssa.Value
		switch v := cc.Value.(type) {
		case *ssa.Field:
			fld = fieldName(v.X.Type(), v.Field)
		case *ssa.UnOp:
			if fa, ok := v.X.(*ssa.FieldAddr); ok {
				st, _ := derefStruct(fa.X.Type())
				fld = fieldName(st, fa.Field)
			}
		case *ssa.Lookup:
			// function value looked up in a map held by a struct field
			if u, ok := v.X.(*ssa.UnOp); ok && !v.CommaOk {
				if fa, ok := u.X.(*ssa.FieldAddr); ok {
					st, _ := derefStruct(fa.X.Type())
					fld = fieldName(st, fa.Field)
					owner = fa.X
					lookupKey = v.Index
				}
			}
		}
		for _, dc := range ex.contract.DynCalls {
			if dc.Field != fld || dc.Like == "" || owner == nil {
				continue
			}
			// the stand-in takes the lookup key, then the call's arguments
			f := ex.P.byKey[ex.fn.Pkg.Pkg.Path()+"."+dc.Like]
			if f == nil || f.Signature.Params().Len() != len(cc.Args)+1 {
				unsupported("dyncall %s like %s: no such method with the lookup key and %d parameters", fld, dc.Like, len(cc.Args))
			}
			args := []Term{ex.val(owner), ex.val(lookupKey)}
			for _, a := range cc.Args {
				args = append(args, ex.val(a))
			}
			ex.q.note("call through a function value of %s treated as %s (every function stored there is audited to carry the same contract)", fld, dc.Like)
			rs := ex.callFunc(f, args, nil, nil, h, reach, x)
			ex.setResults(x, f.Signature, rs)
			return
		}
		ex.counters["dyn."+fld]++
		dynVars = ex.paramVars()
		for i, a := range cc.Args {
			dynVars[fmt.Sprintf("arg%d", i)] = SV{ex.val(a), a.Type()}
		}
		dynPre = h.clone()
		sc := ex.specCtx(dynVars, dynPre)
		for _, dc := range ex.contract.DynCalls {
			if dc.Field == fld && !dc.Ensures && !dc.OnPanic && dc.Like == "" {
				ex.q.oblige(fmt.Sprintf("%s/pre@dyn.%s#%d.%s", ex.q.fnName, fld, ex.counters["dyn."+fld], dc.Clause.Label), "pre", reach, sc.evalBool(dc.Clause),
					ex.P.fset.Position(x.Pos()), "precondition of the call through "+fld+": "+dc.Clause.Text)
			}
		}
	}
	ex.q.note("%s: call through function value %s: heap havoced, result unconstrained", ex.fn.Name(), cc.Value.Name())
	if ex.wantsExc() {
		hx := ex.havocAllKeep(h, reach)
		if dynVars != nil {
			scx := ex.specCtx(dynVars, hx)
			scx.old = dynPre
			for _, dc := range ex.contract.DynCalls {
				if dc.Field == fld && dc.OnPanic {
					ex.q.assume(implies(reach, scx.evalBool(dc.Clause)))
				}
			}
		}
		ins, _ := x.(ssa.Instruction)
		ex.recordExit(reach, hx, ins, "panic in the function called through "+fld)
	}
	*h = *ex.havocAllKeep(h, reach)
	rs := ex.havocResults(sig, reach)
	ex.setResults(x, sig, rs)
	if dynVars != nil {
		for i, r := range rs {
			dynVars[fmt.Sprintf("result%d", i)] = SV{r, sig.Results().At(i).Type()}
			if i == 0 {
				dynVars["result"] = dynVars["result0"]
			}
		}
		sc := &SpecCtx{ex: ex, pkg: ex.fn.Pkg, vars: dynVars, heap: h, old: dynPre}
		for _, dc := range ex.contract.DynCalls {
			if dc.Field == fld && dc.Ensures {
				ex.q.assume(implies(reach, sc.evalBool(dc.Clause)))
				ex.q.note("ASSUMED about every function reachable through %s: %s", fld, dc.Clause.Text)
			}
		}
	}
}

func (ex *Exec) havocResults(sig *types.Signature, reach Term) []Term {
	var rs []Term
	for i := 0; i < sig.Results().Len(); i++ {
		rs = append(rs, ex.havocVal("ret", sig.Results().At(i).Type(), reach))
	}
	return rs
}

func (ex *Exec) onStack(f *ssa.Function) bool {
	for _, s := range ex.stack {
		if s == f {
			return true
		}
	}
	return false
}

func (ex *Exec) callFunc(f *ssa.Function, args, freeVars []Term, cc *ssa.CallCommon, h *Heap, reach Term, at ssa.Value) []Term {
	if ex.depth == 0 && ex.contract != nil && len(ex.contract.PreCalls) > 0 {
		ex.counters["pc."+f.Name()]++
		for _, pc := range ex.contract.PreCalls {
			if pc.Field != f.Name() || !ex.q.propActive(pc.Clause.OnlyProp) {
				continue
			}
			var blk *ssa.BasicBlock
			if ins, ok := at.(ssa.Instruction); ok {
				blk = ins.Block()
			}
			vars := ex.paramVars()
			if blk != nil {
				vars = ex.loopVars(blk, func(phi *ssa.Phi) Term { return ex.val(phi) }, h)
			}
			for i, a := range args {
				vars[fmt.Sprintf("arg%d", i)] = SV{a, nil}
				if cc != nil && i < len(cc.Args) {
					vars[fmt.Sprintf("arg%d", i)] = SV{a, cc.Args[i].Type()}
				}
			}
			sc := ex.specCtx(vars, h.clone())
			ex.q.oblige(fmt.Sprintf("%s/precall@%s#%d.%s", ex.q.fnName, f.Name(), ex.counters["pc."+f.Name()], pc.Clause.Label), "pre", reach, sc.evalBool(pc.Clause),
				ex.P.fset.Position(at.Pos()), "required before calling "+f.Name()+": "+pc.Clause.Text)
		}
	}
	rs := ex.callFunc1(f, args, freeVars, cc, h, reach, at)
	if ex.depth == 0 && ex.contract != nil && len(ex.contract.Witnesses) > 0 {
		ex.counters["wit."+f.Name()]++
		for _, w := range ex.contract.Witnesses {
			if w.Callee == f.Name() && w.N == ex.counters["wit."+f.Name()] {
				wv := ex.paramVars()
				for i, r := range rs {
					wv[fmt.Sprintf("callresult%d", i)] = SV{r, f.Signature.Results().At(i).Type()}
					if i == 0 {
						wv["callresult"] = wv["callresult0"]
					}
				}
				sc := ex.specCtx(wv, h.clone())
				v := sc.eval(w.Expr.Expr)
				v.t = ex.q.def("wit_"+w.Name, v.t)
				if v.typ == nil {
					v.typ = types.Typ[types.Int]
				}
				ex.witness[w.Name] = v
				ex.witness[w.Name+"$captured"] = SV{reach, types.Typ[types.Bool]}
			}
		}
	}
	return rs
}

func (ex *Exec) callFunc1(f *ssa.Function, args, freeVars []Term, cc *ssa.CallCommon, h *Heap, reach Term, at ssa.Value) []Term {
	q := ex.q
	key := funcKey(f)
	if rs, ok := ex.builtinFunc(f, args, reach); ok {
		return rs
	}
	c := ex.P.contracts.get(key)
	li := ex.P.loops(f)
	if ex.root != nil && ex.root.contract != nil && len(f.Blocks) > 0 && !ex.onStack(f) && ex.depth < maxInlineDepth {
		for _, u := range ex.root.contract.Unfold {
			if strings.HasSuffix(key, u) {
				return ex.inline(f, args, freeVars, h, reach, at)
			}
		}
	}
	if c != nil && !c.Inline {
		return ex.contractCall(f, c, args, h, reach, at)
	}
	if strings.HasSuffix(ex.P.fset.Position(f.Pos()).Filename, "_string.go") {
		// generated stringer methods: table lookups guarded by their own range check; result is an arbitrary string
		return ex.havocResults(f.Signature, reach)
	}
	inlinable := len(f.Blocks) > 0 && !li.hasLoops() && ex.depth < maxInlineDepth && !ex.onStack(f) && ex.P.inRepo(f) && f.Recover == nil &&
		((c != nil && c.Inline) || smallEnough(f))
	if inlinable {
		return ex.inline(f, args, freeVars, h, reach, at)
	}
	// no contract, not inlinable: havoc by effects
	effs := ex.P.funcEffects(q.so, f, map[*ssa.Function]bool{})
	var mapped []Effect
	if cc != nil {
		for _, e := range effs {
			mapped = append(mapped, mapEffect(ex.fn, e, f, cc.Args))
		}
	} else {
		mapped = effs
	}
	why := "no contract"
	if len(f.Blocks) == 0 {
		why = "external"
	}
	q.note("%s: call to %s (%s) abstracted: result unconstrained, effects havoced", ex.fn.Name(), key, why)
	if len(mapped) > 0 {
		*h = *ex.applyEffects(h, mapped, nil, reach)
	}
	return ex.havocResults(f.Signature, reach)
}

func (ex *Exec) inline(f *ssa.Function, args, freeVars []Term, h *Heap, reach Term, at ssa.Value) []Term {
	q := ex.q
	ex2 := newExec(q, f, ex)
	ex2.params = args
	ex2.freeVars = freeVars
	ex2.entryHeap = h
	ex2.entryReach = reach
	ex.counters["inl."+f.Name()]++
	ex2.prefix = fmt.Sprintf("%sinl.%s#%d/", ex.prefix, f.Name(), ex.counters["inl."+f.Name()])
	ex2.counters = map[string]int{}
	ex2.contract = nil
	ex2.run()
	ex.panicked = append(ex.panicked, ex2.panicked...)
	if len(ex2.rets) == 0 {
		// never returns (always panics): the continuation is unreachable
		q.assume(not(reach))
		return ex.havocResults(f.Signature, reach)
	}
	var conds []Term
	var heaps []*Heap
	for _, r := range ex2.rets {
		conds = append(conds, r.reach)
		heaps = append(heaps, r.heap)
	}
	*h = *q.mergeHeaps(conds, heaps)
	nres := f.Signature.Results().Len()
	rs := make([]Term, nres)
	for i := 0; i < nres; i++ {
		n := len(ex2.rets)
		t := ex2.rets[n-1].vals[i]
		for k := n - 2; k >= 0; k-- {
			t = ite(ex2.rets[k].reach, ex2.rets[k].vals[i], t)
		}
		rs[i] = q.def("ret_"+f.Name(), t)
	}
	return rs
}

// contractCall: obligations for requires, havoc of modifies, assumption of ensures.
func (ex *Exec) contractCall(f *ssa.Function, c *Contract, args []Term, h *Heap, reach Term, at ssa.Value) []Term {
	q := ex.q
	vars := map[string]SV{}
	pnames, ptypes := sigParams(f)
	for i := range pnames {
		vars[pnames[i]] = SV{args[i], ptypes[i]}
		vars[pnames[i]+"0"] = SV{args[i], ptypes[i]}
		vars[fmt.Sprintf("arg%d", i)] = SV{args[i], ptypes[i]}
	}
	if !c.Assumed && len(f.Blocks) > 0 {
		if ex.P.usedContracts == nil {
			ex.P.usedContracts = map[string]bool{}
		}
		ex.P.usedContracts[funcKey(f)] = true
	}
	pre := h.clone()
	cx := &Exec{q: q, P: ex.P, fn: f, vals: map[ssa.Value]Term{}, locs: map[ssa.Value]*Loc{}, params: args, entryHeap: pre, stack: ex.stack, depth: ex.depth, counters: ex.counters, root: ex.root, witness: map[string]SV{}, parentExec: ex}
	for i, p := range f.Params {
		cx.vals[p] = args[i]
	}
	sc := &SpecCtx{ex: cx, pkg: f.Pkg, vars: vars, heap: pre, old: pre}
	ex.counters["call."+f.Name()]++
	n := ex.counters["call."+f.Name()]
	var pos = ex.P.fset.Position(at.Pos())
	for i, r := range c.Requires {
		if !q.propActive(r.OnlyProp) {
			continue
		}
		g := sc.evalBool(r)
		label := r.Label
		if label == "" {
			label = fmt.Sprint(i + 1)
		}
		q.oblige(fmt.Sprintf("%s/%spre@%s#%d.%s", q.fnName, ex.prefix, f.Name(), n, label), "pre", reach, g, pos, "precondition of "+f.Name()+": "+r.Text)
	}
	// havoc
	var effs []Effect
	if c.HasMod {
		effs = ex.P.contractEffects(q.so, f, c)
		for i := range effs {
			if effs[i].param >= 0 && !effs[i].all {
				effs[i].base = paramValue{effs[i].param}
				cx.vals[effs[i].base] = args[effs[i].param]
			}
		}
	} else if !c.Assumed && len(f.Blocks) > 0 {
		effs = ex.P.funcEffects(q.so, f, map[*ssa.Function]bool{})
		for i := range effs {
			if effs[i].param >= 0 && !effs[i].all {
				effs[i].base = f.Params[effs[i].param]
			}
		}
	}
	// "modifies callbacks": replace the marker by the effects of the function values passed at this call
	var resolved []Effect
	for _, e := range effs {
		if e.key != "$callbacks" {
			resolved = append(resolved, e)
			continue
		}
		call, isCall := at.(*ssa.Call)
		if !isCall {
			resolved = append(resolved, Effect{all: true, dyn: true, pkg: pkgOf(ex.fn)})
			continue
		}
		for _, a := range call.Call.Args {
			if _, isSig := a.Type().Underlying().(*types.Signature); !isSig {
				continue
			}
			var cf *ssa.Function
			switch av := a.(type) {
			case *ssa.MakeClosure:
				cf = av.Fn.(*ssa.Function)
			case *ssa.Function:
				cf = av
			}
			if cf == nil {
				resolved = append(resolved, Effect{all: true, dyn: true, pkg: pkgOf(ex.fn)})
				continue
			}
			for _, ce := range ex.P.funcEffects(q.so, cf, map[*ssa.Function]bool{}) {
				ce.base, ce.param = nil, -1
				resolved = append(resolved, ce)
			}
			// writes to captured variables of the closure (cells shared with the caller)
			for _, b := range cf.Blocks {
				for _, ins := range b.Instrs {
					if st, ok := ins.(*ssa.Store); ok {
						if key, _, _, _, ok2 := ex.P.addrEffect(q.so, st.Addr); ok2 {
							resolved = append(resolved, Effect{key: key, param: -1})
						}
					}
				}
			}
		}
	}
	effs = resolved
	if ex.wantsExc() && !c.Pure {
		// the callee may panic: it leaves behind a state reached by (part of) its effects, of which only its
		// exceptional postconditions are known
		hx := pre.clone()
		if len(effs) > 0 {
			hx = cx.applyEffects(pre, effs, nil, reach)
		}
		scx := &SpecCtx{ex: cx, pkg: f.Pkg, vars: vars, heap: hx, old: pre}
		for _, e := range c.OnPanic {
			if q.propActive(e.OnlyProp) || e.OnlyProp == "assumed" {
				q.assume(implies(reach, scx.evalBool(e)))
			}
		}
		ins, _ := at.(ssa.Instruction)
		if dv, isDefer := at.(deferValue); isDefer {
			ins = dv.d
		}
		ex.recordExit(reach, hx, ins, "panic in "+f.Name())
	}
	if len(effs) > 0 || !c.Pure {
		*h = *cx.applyEffects(pre, effs, nil, reach)
	}
	rs := ex.havocResults(f.Signature, reach)
	for i, r := range rs {
		name := "result"
		if len(rs) > 1 {
			name = fmt.Sprintf("result%d", i)
		}
		vars[name] = SV{r, f.Signature.Results().At(i).Type()}
		if rn := f.Signature.Results().At(i).Name(); rn != "" && rn != "_" {
			vars[rn] = SV{r, f.Signature.Results().At(i).Type()}
		}
		if len(rs) == 1 {
			vars["result0"] = vars["result"]
		}
	}
	if c.Fresh && len(rs) > 0 {
		r0 := rs[0]
		if r0.Sort == sSlice {
			r0 = slBase(r0)
		}
		q.assume(implies(reach, and(le(q.heapGet(pre, allocKey), r0), lt(r0, q.heapGet(h, allocKey)))))
	}
	if c.Opaque && len(rs) == 1 {
		// an opaque function is a (deterministic) function of its arguments: same symbol as in specs
		q.assume(implies(reach, eq(rs[0], ex.specFunApp(f, c, args, h))))
	}
	for _, w := range c.Witnesses {
		wt := ex.P.witnessType(f, w)
		vars[w.Name] = SV{ex.havocVal("wit_"+w.Name, wt, reach), wt}
		vars[w.Name+"$captured"] = SV{ex.havocVal("wit_"+w.Name+"_captured", types.Typ[types.Bool], reach), types.Typ[types.Bool]}
	}
	sc2 := &SpecCtx{ex: cx, pkg: f.Pkg, vars: vars, heap: h, old: pre}
	for _, e := range c.Ensures {
		if e.OnlyProp != "" && e.OnlyProp != "assumed" && !q.propActive(e.OnlyProp) {
			continue
		}
		if e.OnlyProp == "assumed" {
			q.note("ASSUMED CLAUSE of %s: %s", funcKey(f), e.Text)
		}
		q.assume(implies(reach, sc2.evalBool(e)))
	}
	return rs
}

func (ex *Exec) builtin(x ssa.Value, f *ssa.Builtin, cc *ssa.CallCommon, h *Heap, reach Term) {
	q := ex.q
	switch f.Name() {
	case "len":
		v := ex.val(cc.Args[0])
		switch v.Sort {
		case sStr:
			ex.vals[x] = q.def("len", ex.asVal(strLen(v), x.Type()))
		case sSlice:
			ex.vals[x] = q.def("len", ex.asVal(slLen(v), x.Type()))
		default:
			switch t := cc.Args[0].Type().Underlying().(type) {
			case *types.Map:
				_ = t
				q.declFun("uf_maplen", "(Int Int) Int")
				r := ex.q.fresh("maplen", sInt)
				q.assume(and(le(tInt(0), r), le(r, tIntS(maxLen))))
				ex.vals[x] = ex.asVal(r, x.Type())
			case *types.Array:
				ex.vals[x] = ex.intLit(t.Len(), x.Type())
			case *types.Pointer:
				ex.vals[x] = ex.intLit(t.Elem().Underlying().(*types.Array).Len(), x.Type())
			default:
				unsupported("len of %s", cc.Args[0].Type())
			}
		}
	case "cap":
		v := ex.val(cc.Args[0])
		if v.Sort != sSlice {
			unsupported("cap of %s", cc.Args[0].Type())
		}
		ex.vals[x] = q.def("cap", ex.asVal(slCap(v), x.Type()))
	case "append":
		ex.appendBuiltin(x, cc, h, reach)
	case "copy":
		dst, src := ex.val(cc.Args[0]), ex.val(cc.Args[1])
		et := cc.Args[0].Type().Underlying().(*types.Slice).Elem()
		key := ex.memKey(et)
		var srcLen Term
		var srcAt func(i Term) string
		m := q.heapGet(h, key)
		if src.Sort == sStr {
			srcLen = strLen(src)
			srcAt = func(i Term) string { return strAt(src, i).S }
		} else {
			srcLen = slLen(src)
			srcAt = func(i Term) string { return sel(sel(m, slBase(src)), add(slOff(src), i)).S }
		}
		n := q.def("copyn", ite(le(slLen(dst), srcLen), slLen(dst), srcLen))
		na := q.fresh("copied", arrSort(sInt, q.so.sortOf(et)))
		old := sel(m, slBase(dst))
		iv := Term{"i", sInt}
		q.assume(Term{fmt.Sprintf("(forall ((i Int)) (! (= (select %s i) (ite (and (<= %s i) (< i (+ %s %s))) %s (select %s i))) :pattern ((select %s i))))",
			na.S, slOff(dst).S, slOff(dst).S, n.S, srcAt(sub(iv, slOff(dst))), old.S, na.S), sBool})
		q.heapSet(h, key, store(m, slBase(dst), na))
		ex.vals[x] = ex.asVal(n, x.Type())
	case "min", "max":
		a, b := ex.val(cc.Args[0]), ex.val(cc.Args[1])
		if (a.Sort != sInt && !isBV(a.Sort)) || len(cc.Args) != 2 {
			unsupported("min/max on %s", a.Sort)
		}
		ai, bi := ex.ival(cc.Args[0]), ex.ival(cc.Args[1])
		if f.Name() == "min" {
			ex.setVal(x, ite(le(ai, bi), a, b))
		} else {
			ex.setVal(x, ite(le(ai, bi), b, a))
		}
	case "delete":
		mt := cc.Args[0].Type().Underlying().(*types.Map)
		hk, _ := ex.mapKeys(mt)
		m, k := ex.val(cc.Args[0]), ex.val(cc.Args[1])
		hm := q.heapGet(h, hk)
		q.heapSet(h, hk, store(hm, m, store(sel(hm, m), k, tFalse)))
	case "ssa:wrapnilchk":
		// wrapper methods: panics if the pointer receiver is nil, else returns it
		v := ex.val(cc.Args[0])
		if ins, isIns := x.(ssa.Instruction); isIns {
			ex.safety("safe.nil", reach, not(eq(v, tInt(0))), ins, "value method called through a nil pointer")
		}
		ex.vals[x] = v
	case "print", "println":
	case "recover":
		ex.vals[x] = ex.havocVal("recovered", x.Type(), reach)
	default:
		unsupported("builtin %s", f.Name())
	}
}

func (ex *Exec) appendBuiltin(x ssa.Value, cc *ssa.CallCommon, h *Heap, reach Term) {
	q := ex.q
	s := ex.val(cc.Args[0])
	st := cc.Args[0].Type().Underlying().(*types.Slice)
	key := ex.memKey(st.Elem())
	add2 := ex.val(cc.Args[1])
	var n Term
	if add2.Sort == sStr {
		n = strLen(add2)
	} else {
		n = slLen(add2)
	}
	newLen := q.def("applen", add(slLen(s), n))
	fits := q.def("appfits", le(newLen, slCap(s)))
	if ins, ok := x.(ssa.Instruction); ok && q.propActive("C09") && !ex.skipAlloc && ex.guardsAllocs() {
		q.declFun("ghost_membudget", "() Int")
		bytes := app(sInt, "*", newLen, tInt(sizeOfType(st.Elem())))
		q.oblige(ex.obName("guard.alloc"), "guard.alloc", reach, or(fits, le(bytes, tInt(4096+64)), lt(bytes, add(Term{"ghost_membudget", sInt}, tInt(64)))), ex.pos(ins),
			"append: growth beyond the current capacity must be covered by the memory guard (<= 4 KiB or < budget)")
	}
	m := q.heapGet(h, key)
	// result slice
	nb := ex.alloc(h, "append")
	ncap := q.fresh("appcap", sInt)
	q.assume(and(le(newLen, ncap), le(ncap, tIntS(maxLen))))
	res := q.def("appended", ite(fits, mkSlice(slBase(s), slOff(s), newLen, slCap(s)), mkSlice(nb, tInt(0), newLen, ncap)))
	// content of the backing array that holds the result
	na := q.fresh("appdata", arrSort(sInt, q.so.sortOf(st.Elem())))
	old := sel(m, slBase(s))
	var srcAt func(i Term) string
	if add2.Sort == sStr {
		srcAt = func(i Term) string { return strAt(add2, i).S }
	} else {
		srcAt = func(i Term) string { return sel(sel(m, slBase(add2)), add(slOff(add2), i)).S }
	}
	iv := Term{"i", sInt}
	ro := slOff(res)
	// positions [ro, ro+len(s)) hold the old elements, [ro+len(s), ro+newLen) the appended ones;
	// when reusing the backing array everything else is unchanged.
	oldElem := sel(old, add(slOff(s), sub(iv, ro)))
	q.assume(Term{fmt.Sprintf("(forall ((i Int)) (! (= (select %s i) (ite (and (<= %s i) (< i (+ %s %s))) %s (ite (and (<= (+ %s %s) i) (< i (+ %s %s))) %s (ite %s (select %s i) (select %s i))))) :pattern ((select %s i))))",
		na.S, ro.S, ro.S, slLen(s).S, oldElem.S,
		ro.S, slLen(s).S, ro.S, newLen.S, srcAt(sub(sub(iv, ro), slLen(s))),
		fits.S, old.S, na.S, na.S), sBool})
	q.heapSet(h, key, store(m, slBase(res), na))
	ex.vals[x] = res
}

// ---------- interface method calls ----------

func (ex *Exec) invoke(x ssa.Value, cc *ssa.CallCommon, h *Heap, reach Term) {
	q := ex.q
	recv := ex.val(cc.Value)
	var args []Term
	for _, a := range cc.Args {
		args = append(args, ex.val(a))
	}
	sig := cc.Method.Type().(*types.Signature)
	if ins, isIns := x.(ssa.Instruction); isIns {
		ex.safety("safe.nil", reach, not(eq(ifTag(recv), tInt(0))), ins, "method call on nil interface: "+cc.Method.Name())
	}
	// Try a pure per-implementer term
	if sig.Results().Len() == 1 {
		if t, ok := ex.tryIfaceMethodTerm(recv, cc.Value.Type(), cc.Method.Name(), args, h); ok {
			v := q.def("inv_"+cc.Method.Name(), t.t)
			ex.typeFacts(v, sig.Results().At(0).Type())
			ex.vals[x] = v
			return
		}
	}
	// interface family contract?
	if c := ex.P.contracts.get(ifaceKey(cc.Value.Type(), cc.Method.Name())); c != nil {
		targets := ex.P.invokeTargets(cc)
		var f *ssa.Function
		if len(targets) > 0 {
			f = targets[0]
		}
		if f != nil {
			rs := ex.contractCall(ex.P.ifaceStub(cc, f), c, append([]Term{recv}, args...), h, reach, x)
			ex.setResults(x, sig, rs)
			return
		}
	}
	// few implementers: dispatch on the dynamic type, each arm through its own contract / body
	if impls := ex.P.implementers(cc.Value.Type()); len(impls) > 0 && len(impls) <= 6 && ex.depth < maxInlineDepth {
		var conds []Term
		var heaps []*Heap
		var results [][]Term
		ok := true
		for _, ct := range impls {
			f := ex.P.lookupMethod(ct, cc.Method.Name())
			if f == nil || ex.onStack(f) {
				ok = false
				break
			}
			if f.Synthetic != "" && len(f.Blocks) > 0 && ex.P.contracts.get(funcKey(f)) == nil {
				// wrapper (e.g. pointer receiver wrapper for a value method): execute it like any small function
			}
			g := q.def("disp_"+cc.Method.Name(), and(reach, eq(ifTag(recv), tInt(int64(q.so.tag(ct))))))
			hc := h.clone()
			rs := ex.callFunc(f, append([]Term{ex.unbox(ct, recv)}, args...), nil, nil, hc, g, x)
			conds = append(conds, g)
			heaps = append(heaps, hc)
			results = append(results, rs)
		}
		if ok {
			*h = *q.mergeHeaps(conds, heaps)
			n := sig.Results().Len()
			rs := make([]Term, n)
			for i := 0; i < n; i++ {
				t := results[len(results)-1][i]
				for k := len(results) - 2; k >= 0; k-- {
					t = ite(conds[k], results[k][i], t)
				}
				rs[i] = q.def("inv_"+cc.Method.Name(), t)
			}
			ex.setResults(x, sig, rs)
			return
		}
	}
	effs := ex.P.callEffects(q.so, ex.fn, cc, map[*ssa.Function]bool{})
	q.note("%s: interface call %s.%s abstracted: result unconstrained", ex.fn.Name(), cc.Value.Type(), cc.Method.Name())
	*h = *ex.applyEffects(h, effs, nil, reach)
	ex.setResults(x, sig, ex.havocResults(sig, reach))
}

func ifaceKey(t types.Type, method string) string {
	return "iface:" + t.String() + "." + method
}

func (ex *Exec) ifaceMethodTerm(recv Term, it types.Type, name string, args []Term, h *Heap) SV {
	if t, ok := ex.tryIfaceMethodTerm(recv, it, name, args, h); ok {
		return t
	}
	panic(specErr{fmt.Sprintf("interface method %s.%s cannot be expressed as a term", it, name)})
}

// tryIfaceMethodTerm builds ite(tag==T1, body_T1(unbox), ite(..., uf(recv))) when all known implementers'
// methods are loop-free and pure enough to evaluate as terms; implementers that are not are covered by an
// uninterpreted function of the receiver.
func (ex *Exec) tryIfaceMethodTerm(recv Term, it types.Type, name string, args []Term, h *Heap) (SV, bool) {
	q := ex.q
	impls := ex.P.implementers(it)
	if len(impls) == 0 {
		return SV{}, false
	}
	var resT types.Type
	type arm struct {
		tag  int
		term Term
	}
	var arms []arm
	ufName := "uf_m_" + sanitize(it.String()) + "_" + name
	for _, ct := range impls {
		f := ex.P.lookupMethod(ct, name)
		if f == nil {
			continue
		}
		if f.Signature.Results().Len() != 1 {
			return SV{}, false
		}
		resT = f.Signature.Results().At(0).Type()
		if f.Synthetic != "" && len(f.Blocks) == 0 {
			continue
		}
		// *T boxed where the method is declared on T: evaluate T's method on the pointee
		viaPointer := false
		if pt, isPtr := ct.(*types.Pointer); isPtr && f.Synthetic != "" {
			if fv := ex.P.lookupMethod(pt.Elem(), name); fv != nil && fv.Synthetic == "" {
				if _, recvIsPtr := fv.Signature.Recv().Type().(*types.Pointer); !recvIsPtr {
					f = fv
					viaPointer = true
				}
			}
		}
		if ex.P.loops(f).hasLoops() || len(f.Blocks) == 0 || len(f.Blocks) > 12 || ex.onStack(f) {
			continue // falls to the uninterpreted arm
		}
		if !ex.P.isConstMethod(f) {
			continue
		}
		// evaluate as pure term
		var t Term
		ok := func() (ok bool) {
			defer func() {
				if r := recover(); r != nil {
					if _, isU := r.(unsupportedErr); isU {
						ok = false
						return
					}
					if _, isS := r.(specErr); isS {
						ok = false
						return
					}
					panic(r)
				}
			}()
			ex2 := newExec(q, f, ex)
			ex2.skipSafety = true
			rv := ex.unbox(ct, recv)
			if viaPointer {
				rv = ex.load(&Loc{kind: lkObj, base: rv, typ: ct.(*types.Pointer).Elem()}, h)
			}
			ex2.params = append([]Term{rv}, args...)
			ex2.entryHeap = h
			ex2.entryReach = tTrue
			q.pureDepth++
			q.noOblig++
			defer func() { q.pureDepth--; q.noOblig-- }()
			ex2.run()
			if len(ex2.rets) == 0 {
				return false
			}
			n := len(ex2.rets)
			t = ex2.rets[n-1].vals[0]
			for i := n - 2; i >= 0; i-- {
				t = ite(ex2.rets[i].reach, ex2.rets[i].vals[0], t)
			}
			return true
		}()
		if ok {
			arms = append(arms, arm{q.so.tag(ct), t})
		}
	}
	if resT == nil || len(arms) == 0 {
		return SV{}, false
	}
	rs := q.so.sortOf(resT)
	sig := "(Iface"
	for _, a := range args {
		sig += " " + a.Sort
	}
	sig += ") " + rs
	q.declFun(ufName, sig)
	t := app(rs, ufName, append([]Term{recv}, args...)...)
	for i := len(arms) - 1; i >= 0; i-- {
		t = ite(eq(ifTag(recv), tInt(int64(arms[i].tag))), arms[i].term, t)
	}
	return SV{t, resT}, true
}

// specFunApp: an opaque or looping contracted function used inside a spec becomes an uninterpreted function
// of its arguments (and nothing else: such functions must not read the heap).
func (ex *Exec) specFunApp(f *ssa.Function, c *Contract, args []Term, h *Heap) Term {
	q := ex.q
	rs := q.so.sortOf(f.Signature.Results().At(0).Type())
	name := "spec_" + sanitize(funcKey(f))
	sig := "("
	for i, a := range args {
		if i > 0 {
			sig += " "
		}
		sig += a.Sort
	}
	sig += ") " + rs
	q.declFun(name, sig)
	return app(rs, name, args...)
}

// ---------- defers ----------

type deferred struct {
	call  *ssa.Defer
	reach Term
}

// deferInstr records the deferred call; it is executed at RunDefers (normal exits).
// Exceptional exits (panics) are handled separately by the exceptional-frame machinery.
func (ex *Exec) deferInstr(x *ssa.Defer, h *Heap, reach Term) {
	ex.defers = append(ex.defers, deferred{x, reach})
}

func (ex *Exec) runDefers(x *ssa.RunDefers, h *Heap, reach Term) {
	ex.runDeferred(ex.defers, x.Block(), h, reach)
}

// runDeferred executes the deferred calls ds (last first) on h for a path with condition reach that ends in block at
// (nil: unknown): a deferred call runs only if its defer statement was executed on that path.
func (ex *Exec) runDeferred(ds []deferred, at *ssa.BasicBlock, h *Heap, reach Term) {
	for i := len(ds) - 1; i >= 0; i-- {
		d := ds[i]
		g := and(reach, d.reach)
		cc := d.call.Common()
		if at != nil && d.call.Block().Dominates(at) {
			ex.callAt(deferValue{d.call}, cc, h, g)
			continue
		}
		// conditional defer: the heap changes only on the paths that executed the defer statement
		before := h.clone()
		ex.callAt(deferValue{d.call}, cc, h, g)
		after := h.clone()
		*h = *ex.q.mergeHeaps([]Term{d.reach}, []*Heap{after, before})
	}
}

// deferValue adapts a Defer instruction to the ssa.Value interface expected by call().
type deferValue struct{ d *ssa.Defer }

func (v deferValue) Name() string                  { return "defer" }
func (v deferValue) String() string                { return v.d.String() }
func (v deferValue) Type() types.Type              { return types.NewTuple() }
func (v deferValue) Parent() *ssa.Function         { return v.d.Parent() }
func (v deferValue) Referrers() *[]ssa.Instruction { return nil }
func (v deferValue) Pos() token.Pos                { return v.d.Pos() }

var _ = strings.Contains

// sigParams lists parameter names and types (receiver first) even for functions without bodies.
func sigParams(f *ssa.Function) ([]string, []types.Type) {
	var names []string
	var typs []types.Type
	if len(f.Params) > 0 {
		for _, p := range f.Params {
			names = append(names, p.Name())
			typs = append(typs, p.Type())
		}
		return names, typs
	}
	sig := f.Signature
	if r := sig.Recv(); r != nil {
		n := r.Name()
		if n == "" || n == "_" {
			n = "recv"
		}
		names = append(names, n)
		typs = append(typs, r.Type())
	}
	for i := 0; i < sig.Params().Len(); i++ {
		p := sig.Params().At(i)
		n := p.Name()
		if n == "" || n == "_" {
			n = fmt.Sprintf("arg%d", i)
		}
		names = append(names, n)
		typs = append(typs, p.Type())
	}
	return names, typs
}

// paramValue is a placeholder ssa.Value standing for the i-th parameter of a body-less function.
type paramValue struct{ i int }

func (paramValue) Name() string                  { return "param" }
func (paramValue) String() string                { return "param" }
func (paramValue) Type() types.Type              { return types.Typ[types.Int] }
func (paramValue) Parent() *ssa.Function         { return nil }
func (paramValue) Referrers() *[]ssa.Instruction { return nil }
func (paramValue) Pos() token.Pos                { return token.NoPos }

// builtinFunc gives exact semantics to a few pure standard-library functions.
func (ex *Exec) builtinFunc(f *ssa.Function, args []Term, reach Term) ([]Term, bool) {
	q := ex.q
	path := calleePkgPath(f)
	name := f.Name()
	intT := types.Typ[types.Int]
	lit := func(n int64) Term { return ex.intLit(n, intT) }
	switch {
	case path == "cmp" && strings.HasPrefix(name, "Compare") && len(args) == 2:
		a, b := args[0], args[1]
		pt := f.Signature.Params().At(0).Type()
		switch {
		case a.Sort == sF64 || a.Sort == sF32:
			nanA, nanB := app(sBool, "fp.isNaN", a), app(sBool, "fp.isNaN", b)
			r := ite(nanA, ite(nanB, lit(0), lit(-1)), ite(nanB, lit(1), ite(app(sBool, "fp.lt", a, b), lit(-1), ite(app(sBool, "fp.gt", a, b), lit(1), lit(0)))))
			return []Term{q.def("cmpf", r)}, true
		case isBV(a.Sort):
			ltOp, gtOp := "bvslt", "bvsgt"
			if !isSignedInt(pt) {
				ltOp, gtOp = "bvult", "bvugt"
			}
			return []Term{q.def("cmpi", ite(app(sBool, ltOp, a, b), lit(-1), ite(app(sBool, gtOp, a, b), lit(1), lit(0))))}, true
		case a.Sort == sInt:
			return []Term{q.def("cmpi", ite(lt(a, b), lit(-1), ite(lt(b, a), lit(1), lit(0))))}, true
		case a.Sort == sStr:
			q.needStrCmp = true
			r := app(sInt, "uf_strcmp", a, b)
			if q.so.bv {
				return []Term{q.def("cmps", ite(eq(r, tInt(-1)), lit(-1), ite(eq(r, tInt(0)), lit(0), lit(1))))}, true
			}
			return []Term{q.def("cmps", r)}, true
		}
	case path == "math" && name == "IsNaN" && len(args) == 1:
		return []Term{app(sBool, "fp.isNaN", args[0])}, true
	}
	return nil, false
}
