package main

// C06: arrays and maps are values.
// Deductive part: the functions that implement index assignment, element deletion and + on containers are under the
// contract "no element of any slice/array block that existed before the call has changed" (memsame), i.e. whatever
// other binding, argument or container element denotes the old value still sees the same elements; map merging and
// SmallMap.Set are proved to write only storage they allocate.  The in-place writes of big arrays / big maps fail
// these obligations: genuine defects, recorded as known findings with their failing programs.
// Structural clause: every function of the interpreter that can write pre-existing element memory at all (decided on
// SSA: a store through a slice element address, append into possible spare capacity, copy, an external callee
// receiving the slice, where the block was not allocated by the same activation) is either under such a contract or on
// the reviewed list below.

import (
	"sort"
	"strings"
)

func init() { propExtras["C06"] = c06Extras }

// reviewed writers of pre-existing element memory that are not under a C06 contract, with the reason they cannot
// create aliasing between program values
var c06Reviewed = map[string]string{
	"grol.io/grol/object.(BigArray).Swap":          "sort.Sort adapter used by the sort extension on a copy it makes itself (extensions/: slices.Clone before sorting is not checked here: see assumptions)",
	"grol.io/grol/eval.(*State).DefineMacros":      "removes macro definitions from the statement list of the program being evaluated: syntax tree memory, not a program value",
	"grol.io/grol/eval.(*State).applyExtension":    "rewrites the argument slice built for this call by evalExpressions (private to the call)",
	"grol.io/grol/eval.(*State).extendFunctionEnv": "appends the variadic tail to the argument slice built for this call by evalExpressions (private to the call)",
	"grol.io/grol/object.(*BigMap).get":            "binary search helper: its slice argument is a local pair used as the search key",
	"grol.io/grol/ast.Modify":                      "rewrites copies of syntax tree nodes (C13)",
}

func c06Extras(cc *CheckCtx) {
	p := cc.P
	so := newSorts(false)
	keys := []string{"M:Iface", "M:S_grol_io_grol_object_keyValuePair"}
	for _, k := range keys {
		var names []string
		for _, w := range p.writersOf(so, k) {
			names = append(names, funcKey(w))
		}
		sort.Strings(names)
		for _, n := range names {
			short := strings.TrimPrefix(n, "grol.io/grol/")
			if strings.HasPrefix(n, "grol.io/grol/parser.") || strings.HasPrefix(n, "grol.io/grol/repl.") || strings.HasPrefix(n, "grol.io/grol.") {
				cc.audit("elem-writer."+short, true, "writes pre-existing "+k+" memory, front end / host package: syntax tree or host data, not reachable as a program value", "")
				continue
			}
			if c := p.contracts.get(n); c != nil && hasProp(c.Props, "C06") && !c.Assumed {
				cc.audit("elem-writer."+short, true, "writes pre-existing "+k+" memory: under a C06 contract (its memsame / modifies clauses decide)", "")
				continue
			}
			if why, ok := c06Reviewed[n]; ok {
				cc.audit("elem-writer."+short, true, "writes pre-existing "+k+" memory, reviewed: "+why, "")
				continue
			}
			cc.audit("elem-writer."+short, false, "writes element memory ("+k+") of blocks it did not allocate and is neither under a C06 contract nor on the reviewed list: possible aliasing between values", "")
		}
	}
	cc.runBounded(BoundedSpec{Name: "aliasing", PkgDir: "repl", File: "c06_alias_test.go", Test: "TestVerifBoundedAliasing", TimeoutS: 300,
		Contract: "after a second binding is made, a mutation through one binding leaves the other's printed value unchanged, at every size"})
	cc.Assume = append(cc.Assume,
		"C06: (*Environment).Get's frame is trusted (it builds the fresh `info` maps with the in-place map setters)",
		"C06: the reviewed writers (sort adapter, argument-slice rewriting in applyExtension/extendFunctionEnv, syntax-tree rewriting) are argued in prop_c06.go, not proved",
		"C06: extensions that build containers (sort, keys, ...) are outside the contracts; slices.Insert's contract is assumed",
		"C06: 'what a binding evaluates to' is reduced to 'the element memory an existing container value denotes is unchanged'; bindings themselves are rebound only by the assignment's own target (scoping is C01/C19 territory)")
}
