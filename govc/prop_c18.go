package main

// C18: auto-save is crash-atomic.  Deductive part: typestate contracts (ghost tempfile / werr on *os.File) make
// os.Rename(_, ".gr") require a CreateTemp-created, completely written file (AutoSave, SaveGlobals).  Structural
// part here: the only file-system sinks reachable from AutoSave are that CreateTemp and that Rename, so at every
// crash point the state file is either the old or the new complete version (rename(2) assumed atomic).

import (
	"fmt"
	"go/constant"
	"strings"

	"golang.org/x/tools/go/ssa"
)

func init() { propExtras["C18"] = c18Extras }

func constString(v ssa.Value) (string, bool) {
	if c, ok := v.(*ssa.Const); ok && c.Value != nil && c.Value.Kind() == constant.String {
		return constant.StringVal(c.Value), true
	}
	return "", false
}

func c18Extras(cc *CheckCtx) {
	p := cc.P
	var replPkg *ssa.Package
	for _, sp := range p.prog.AllPackages() {
		if sp.Pkg.Path() == "grol.io/grol/repl" {
			replPkg = sp
		}
	}
	if replPkg == nil || replPkg.Func("AutoSave") == nil {
		cc.audit("autosave-present", false, "repl.AutoSave not found (renamed?)", "")
		return
	}
	as := replPkg.Func("AutoSave")
	reach := p.reachableFrom([]*ssa.Function{as})
	var funcs []*ssa.Function
	for f := range reach {
		if p.inRepo(f) {
			funcs = append(funcs, f)
		}
	}
	sites := p.callSites(funcs, isSink)
	nTemp, nRename := 0, 0
	for _, s := range sites {
		name := calleePkgPath(s.callee) + "." + s.callee.Name()
		args := s.instr.Common().Args
		switch {
		case name == "os.CreateTemp" && s.in == as:
			dir, ok1 := constString(args[0])
			pat, ok2 := constString(args[1])
			ok := ok1 && ok2 && dir == "." && strings.HasPrefix(pat, ".grol") && strings.HasSuffix(pat, ".tmp") && !strings.Contains(pat, "/")
			cc.audit("sink.CreateTemp", ok, fmt.Sprintf("os.CreateTemp(%q, %q): a new file in the same directory whose name cannot be the state file", dir, pat), p.posOf(s.instr))
			nTemp++
		case name == "os.Rename" && s.in == as:
			_, isConst := constString(args[1])
			dst := ""
			if !isConst {
				// AutoSaveFile is a package-level constant: the SSA operand is a constant
				dst = args[1].String()
			} else {
				dst, _ = constString(args[1])
			}
			cc.audit("sink.Rename", isConst && dst == ".gr", fmt.Sprintf("os.Rename(<temp file name>, %q) is the only operation that replaces the state file", dst), p.posOf(s.instr))
			nRename++
		default:
			cc.audit("sink.other."+s.in.Name()+"."+s.callee.Name(), false, fmt.Sprintf("unexpected file-system/process sink %s reachable from AutoSave in %s", name, funcKey(s.in)), p.posOf(s.instr))
		}
	}
	cc.audit("sink-count", nTemp == 1 && nRename == 1, fmt.Sprintf("exactly one CreateTemp and one Rename in AutoSave (found %d and %d); %d functions reachable from AutoSave scanned", nTemp, nRename, len(funcs)), "")
	// callers: after a recovered panic the state is not saved
	if f := replPkg.Func("EvalStringWithOption"); f != nil {
		ok := false
		where := ""
		for _, s := range p.callSites([]*ssa.Function{f}, func(c *ssa.Function) bool { return c == as }) {
			where = p.posOf(s.instr)
			ok = guardedBy(s.instr.Block(), false, func(c ssa.Value) bool {
				// condition is the `panicked` result of EvalOne (an Extract of the call tuple)
				ex, isEx := c.(*ssa.Extract)
				if !isEx {
					return false
				}
				call, isCall := ex.Tuple.(*ssa.Call)
				return isCall && staticCallee(call.Common()) != nil && staticCallee(call.Common()).Name() == "EvalOne" && ex.Index == 1
			})
		}
		cc.audit("no-save-after-panic", ok, "EvalStringWithOption calls AutoSave only on the !panicked branch of EvalOne's result", where)
	}
	cc.Assume = append(cc.Assume,
		"C18: rename(2) atomically replaces the destination; os.CreateTemp returns a new file whose name matches the pattern; (*os.File) writes are unbuffered (reach the kernel before Write returns)",
		"C18: durability across power loss (no fsync) is outside the property (process death only)",
		"C18: ghost state (tempfile, werr) attached to *os.File is introduced only by the assumed contracts of os.CreateTemp, fmt.Fprintf, os.(*File).Name, os.Rename")
}
