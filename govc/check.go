package main

// govc check: decide one property; writes evidence, prints KNOWN-FINDING / VIOLATION lines.

import (
	"bufio"
	"encoding/json"
	"flag"
	"fmt"
	"os"
	"path/filepath"
	"sort"
	"strconv"
	"strings"
	"time"
)

type Finding struct {
	Property   string
	Obligation string
	Text       string
	seen       bool
}

func loadFindings(path string) ([]*Finding, error) {
	f, err := os.Open(path)
	if err != nil {
		if os.IsNotExist(err) {
			return nil, nil
		}
		return nil, err
	}
	defer f.Close()
	var out []*Finding
	sc := bufio.NewScanner(f)
	for sc.Scan() {
		line := strings.TrimSpace(sc.Text())
		if !strings.HasPrefix(line, "finding:") {
			continue
		}
		fd := &Finding{Text: line}
		for _, w := range strings.Fields(line) {
			if strings.HasPrefix(w, "property=") {
				fd.Property = strings.TrimPrefix(w, "property=")
			}
			if strings.HasPrefix(w, "obligation=") {
				fd.Obligation = strings.TrimPrefix(w, "obligation=")
			}
		}
		out = append(out, fd)
	}
	return out, sc.Err()
}

// Item: one decided unit of a check (SMT obligation, audit clause, or bounded evaluation batch).
type Item struct {
	Name       string  `json:"name"`
	Kind       string  `json:"kind"`
	Status     string  `json:"status"` // proved | failed | unknown
	Backend    string  `json:"backend"`
	Secs       float64 `json:"secs"`
	Detail     string  `json:"detail,omitempty"`
	Where      string  `json:"where,omitempty"`
	Bounded    bool    `json:"bounded,omitempty"`
	Reproduced bool    `json:"-"`
	Model      string  `json:"-"`
	Goal       string  `json:"-"`
}

type CheckCtx struct {
	P        *Prog
	Prop     string
	Tier     string
	Timeout  int
	Items    []*Item
	Notes    []string
	Assume   []string
	Funcs    []string
	Bounded  []map[string]any
	Repo     string
	VerifDir string
	OutDir   string
}

func (cc *CheckCtx) add(it *Item) { cc.Items = append(cc.Items, it) }

func (cc *CheckCtx) note(f string, a ...any) {
	s := fmt.Sprintf(f, a...)
	for _, n := range cc.Notes {
		if n == s {
			return
		}
	}
	cc.Notes = append(cc.Notes, s)
}

func cmdCheck(args []string) {
	fs := flag.NewFlagSet("check", flag.ExitOnError)
	repo := fs.String("repo", "/repo", "repository")
	vdir := fs.String("verif", "/verif", "verif dir")
	prop := fs.String("prop", "", "property id")
	tier := fs.String("tier", "quick", "quick|thorough")
	outDir := fs.String("out", "", "directory for evidence/ and replay/ (default: the verif dir)")
	timeout := fs.Int("timeout", 0, "solver timeout per attempt (s); default 10 quick / 60 thorough")
	fs.Parse(args)
	if *prop == "" {
		fmt.Fprintln(os.Stderr, "check: -prop required")
		os.Exit(2)
	}
	if *timeout == 0 {
		*timeout = 10
		if *tier == "thorough" {
			*timeout = 60
		}
	}
	t0 := time.Now()
	seed := 0
	if s := os.Getenv("VERIF_SEED"); s != "" {
		seed, _ = strconv.Atoi(s)
	}
	p, err := loadProg(*repo, filepath.Join(*vdir, "contracts"))
	if err != nil {
		// the tree does not load under tag verif: nothing can be decided
		fmt.Fprintln(os.Stderr, "load:", err)
		fmt.Printf("VIOLATION property=%s replay=%s no-failing-input-found\n", *prop, writeReplay(*vdir, *prop, "load-error", map[string]any{"error": err.Error()}))
		os.Exit(1)
	}
	p.curProp = *prop
	if fds, err := loadFindings(filepath.Join(*vdir, "known_findings.txt")); err == nil {
		for _, fd := range fds {
			noRetry[fd.Obligation] = true
		}
	}
	cc := &CheckCtx{P: p, Prop: *prop, Tier: *tier, Timeout: *timeout, Repo: *repo, VerifDir: *vdir, OutDir: *outDir}
	if cc.OutDir == "" {
		cc.OutDir = *vdir
	}
	// 1. contracted functions tagged with this property
	var results []*FnResult
	for _, k := range p.contracts.Order {
		c := p.contracts.ByKey[k]
		if c.Assumed || !hasProp(c.Props, *prop) {
			continue
		}
		f := p.byKey[k]
		if f == nil {
			cc.add(&Item{Name: k + "/bind", Kind: "bind", Status: "failed", Backend: "loader", Detail: "contract names a function that does not exist in the tree (renamed or removed): its obligations cannot be generated", Where: fmt.Sprintf("%s:%d", c.File, c.Line)})
			continue
		}
		r := p.verifyFunction(f, c)
		results = append(results, r)
		cc.Funcs = append(cc.Funcs, k)
	}
	// every contract applied at a call site of these functions is assumed there with the clauses active for this
	// property, so the callee is verified for this property too (transitively), whatever its own property tags
	done := map[string]bool{}
	for _, r := range results {
		done[r.Key] = true
	}
	for changed := true; changed; {
		changed = false
		var ks []string
		for k := range p.usedContracts {
			if !done[k] {
				ks = append(ks, k)
			}
		}
		sort.Strings(ks)
		for _, k := range ks {
			done[k] = true
			c := p.contracts.get(k)
			f := p.byKey[k]
			if c == nil || c.Assumed || f == nil {
				continue
			}
			changed = true
			r := p.verifyFunction(f, c)
			results = append(results, r)
			cc.Funcs = append(cc.Funcs, k+" (callee contract applied during this check)")
		}
	}
	// property-specific functions verified under synthesised contracts
	if fn, ok := propPreFuncs[*prop]; ok {
		results = append(results, fn(cc)...)
	}
	solveAll(results, *timeout, 16)
	for _, r := range results {
		if r.Unsupported != "" {
			cc.add(&Item{Name: r.Key + "/translate", Kind: "translate", Status: "unknown", Backend: "govc", Detail: "function left the verifier's subset: " + r.Unsupported})
		}
		for _, n := range r.Q.notes {
			cc.note("%s", n)
		}
		for _, o := range r.Q.obligs {
			it := &Item{Name: o.Name, Kind: o.Kind, Status: o.Status, Backend: o.Solver, Secs: o.Secs, Detail: o.Comment, Where: fmt.Sprintf("%s:%d", o.Pos.Filename, o.Pos.Line), Model: o.Model, Goal: o.Goal.S}
			cc.add(it)
		}
	}
	// 2. property-specific audits, tables, lemmas and bounded stand-ins
	if fn, ok := propExtras[*prop]; ok {
		fn(cc)
	}
	// 2b. global invariants assumed by every function are discharged once per check
	if len(p.contracts.Globals) > 0 && len(results) > 0 {
		cc.checkGlobals()
	}
	// 3. assumptions: assumed contracts used + fixed list
	for _, k := range p.contracts.Order {
		if c := p.contracts.ByKey[k]; c.Assumed {
			cc.Assume = append(cc.Assume, "assumed contract (never verified): "+k)
		}
	}
	finish(cc, t0, seed)
}

// propPreFuncs: per property, functions verified under contracts synthesised by the check itself.
var propPreFuncs = map[string]func(cc *CheckCtx) []*FnResult{}

func hasProp(ps []string, p string) bool {
	for _, x := range ps {
		if x == p {
			return true
		}
	}
	return false
}

func writeReplay(vdir, prop, name string, body map[string]any) string {
	dir := filepath.Join(vdir, "replay")
	os.MkdirAll(dir, 0o755)
	path := filepath.Join(dir, prop+"-"+sanitize(name)+".json")
	body["property"] = prop
	body["obligation"] = name
	b, _ := json.MarshalIndent(body, "", " ")
	os.WriteFile(path, b, 0o644)
	return path
}

var globalAssumptions = []string{
	"govc itself (go/ssa -> SMT translation, loop cutting, effect computation) and golang.org/x/tools go/ssa v0.29.0",
	"SMT solvers z3 5.1.0 (z3-new), z3 4.8.12, cvc5 1.0.3: an 'unsat' answer from one of them is taken as a proof",
	"Go int/int64 arithmetic is treated as mathematical (no wrap-around) except in functions marked 'arith wrap' or 'overflow'",
	"no string or slice is longer than 2^46 elements; allocation never fails; the garbage collector is invisible",
	"fortio.org/log calls have no effect on program state; external (non-repo) callees without an assumed contract return unconstrained values and, unless in a package listed as pure, havoc the heap",
	"map keys containing strings: a lookup may hit any present content-equal key (exact Go semantics), but contract expressions compare such keys structurally",
	"inlined callees: loop-free repo functions without their own contract are verified in place at every call site (no separate contract)",
}

func finish(cc *CheckCtx, t0 time.Time, seed int) {
	findings, err := loadFindings(filepath.Join(cc.VerifDir, "known_findings.txt"))
	if err != nil {
		fmt.Fprintln(os.Stderr, "known findings:", err)
		os.Exit(2)
	}
	byObl := map[string]*Finding{}
	for _, f := range findings {
		if f.Property == cc.Prop {
			byObl[f.Obligation] = f
		}
	}
	obligations, discharged, boundedN := 0, 0, 0
	byBackend := map[string]map[string]float64{}
	var violations []*Item
	var known []string
	kinds := map[string]int{}
	for _, it := range cc.Items {
		if fd, ok := byObl[it.Name]; ok {
			if it.Status != "proved" {
				fd.seen = true
				known = append(known, it.Name)
				fmt.Printf("KNOWN-FINDING: %s\n", strings.TrimSpace(strings.TrimPrefix(fd.Text, "finding:")))
				continue
			}
			// the finding no longer reproduces: not an error, just say so
			fmt.Printf("NOTE: listed finding no longer fails: %s\n", it.Name)
		}
		if it.Bounded {
			boundedN++
		}
		obligations++
		kinds[it.Kind]++
		if it.Status == "proved" {
			discharged++
			be := it.Backend
			if i := strings.IndexAny(be, "(/"); i > 0 {
				be = be[:i]
			}
			if byBackend[be] == nil {
				byBackend[be] = map[string]float64{}
			}
			byBackend[be]["count"]++
			byBackend[be]["seconds"] += it.Secs
		} else {
			violations = append(violations, it)
		}
	}
	// vacuity: a check with no obligations decides nothing
	if obligations == 0 && len(known) == 0 {
		violations = append(violations, &Item{Name: cc.Prop + "/no-obligations", Kind: "vacuity", Status: "failed", Detail: "the check generated no obligations"})
	}
	// baseline of obligation names for the unchanged tree: an obligation that disappears is reported
	basePath := filepath.Join(cc.VerifDir, "baseline", cc.Prop+".txt")
	if os.Getenv("GOVC_WRITE_BASELINE") != "" {
		var names []string
		for _, it := range cc.Items {
			names = append(names, it.Kind+" "+fnOf(it.Name))
		}
		names = uniqSorted(names)
		os.MkdirAll(filepath.Dir(basePath), 0o755)
		os.WriteFile(basePath, []byte(strings.Join(names, "\n")+"\n"), 0o644)
	} else if b, err := os.ReadFile(basePath); err == nil {
		have := map[string]bool{}
		for _, it := range cc.Items {
			have[it.Kind+" "+fnOf(it.Name)] = true
		}
		for _, l := range strings.Split(strings.TrimSpace(string(b)), "\n") {
			if l != "" && !have[l] {
				violations = append(violations, &Item{Name: cc.Prop + "/missing:" + l, Kind: "vacuity", Status: "failed", Detail: "obligation family present on the unchanged tree is no longer generated: " + l})
			}
		}
	}
	var samples []any
	for i, it := range cc.Items {
		if i%maxInt(1, len(cc.Items)/12) == 0 && len(samples) < 14 {
			g := it.Goal
			if len(g) > 300 {
				g = g[:300] + "..."
			}
			samples = append(samples, map[string]any{"obligation": it.Name, "kind": it.Kind, "status": it.Status, "backend": it.Backend, "what": it.Detail, "smt_goal": g})
		}
	}
	// the slowest discharged obligations (the ones most exposed to machine load) and how many needed the second pass
	var slow []*Item
	secondPass := 0
	for _, it := range cc.Items {
		if it.Status == "proved" && it.Kind != "cover" && !it.Bounded {
			slow = append(slow, it)
		}
		if strings.Contains(it.Backend, "second pass") {
			secondPass++
		}
	}
	sort.Slice(slow, func(i, j int) bool { return slow[i].Secs > slow[j].Secs })
	var slowest []any
	for i, it := range slow {
		if i >= 8 {
			break
		}
		slowest = append(slowest, map[string]any{"obligation": it.Name, "seconds": it.Secs, "backend": it.Backend})
	}
	wall := time.Since(t0).Seconds()
	cov := map[string]any{
		"slowest_discharged":        slowest,
		"needed_second_pass":        secondPass,
		"obligations":               obligations,
		"discharged":                discharged,
		"checker_cmd":               fmt.Sprintf("/verif/bin/govc check -prop %s -tier %s (z3-new 5.1.0, cvc5 1.0.3, z3 4.8.12 raced per obligation, %ds per attempt)", cc.Prop, cc.Tier, cc.Timeout),
		"trusted_base":              globalAssumptions,
		"samples":                   samples,
		"functions_under_contract":  cc.Funcs,
		"by_backend":                byBackend,
		"obligation_kinds":          kinds,
		"abstractions_applied":      cc.Notes,
		"known_finding_obligations": known,
		"bounded_items_not_proofs":  boundedN,
		"bounded":                   cc.Bounded,
	}
	ev := map[string]any{
		"property_id": cc.Prop,
		"tier":        cc.Tier,
		"seed":        seed,
		"level":       "proof",
		"coverage":    cov,
		"assumptions": append(append([]string{}, globalAssumptions...), cc.Assume...),
		"wall_s":      wall,
		"violations":  len(violations),
	}
	os.MkdirAll(filepath.Join(cc.OutDir, "evidence"), 0o755)
	b, _ := json.MarshalIndent(ev, "", " ")
	os.WriteFile(filepath.Join(cc.OutDir, "evidence", cc.Prop+".json"), b, 0o644)
	fmt.Printf("property %s tier %s: %d obligations, %d discharged, %d known findings, %d violations, %.1fs\n", cc.Prop, cc.Tier, obligations, discharged, len(known), len(violations), wall)
	if len(violations) == 0 {
		os.Exit(0)
	}
	sort.SliceStable(violations, func(i, j int) bool { return violations[i].Name < violations[j].Name })
	for _, it := range violations {
		body := map[string]any{"kind": it.Kind, "status": it.Status, "what": it.Detail, "where": it.Where, "backend": it.Backend, "solver_output": truncate(it.Model, 20000), "smt_goal": truncate(it.Goal, 4000)}
		reproduced := it.Reproduced
		if it.Reproduced {
			body["failing_input"] = it.Model
		}
		if rp, ok := replayers[it.Kind]; ok && it.Model != "" {
			reproduced = rp(cc, it, body)
		}
		path := writeReplay(cc.OutDir, cc.Prop, it.Name, body)
		suffix := ""
		if !reproduced {
			suffix = " no-failing-input-found"
		}
		fmt.Printf("  %s %s: %s [%s]\n", it.Status, it.Name, it.Detail, it.Where)
		fmt.Printf("VIOLATION property=%s replay=%s%s\n", cc.Prop, path, suffix)
	}
	os.Exit(1)
}

func fnOf(name string) string {
	if i := strings.LastIndex(name, "/"); i > 0 {
		// keep function and first path element only (kinds are stable, ordinals are not)
		fn := name[:i]
		if j := strings.Index(fn, "/inl."); j > 0 {
			fn = fn[:j]
		}
		return fn
	}
	return name
}

func uniqSorted(xs []string) []string {
	sort.Strings(xs)
	var out []string
	for i, x := range xs {
		if i == 0 || x != xs[i-1] {
			out = append(out, x)
		}
	}
	return out
}

func maxInt(a, b int) int {
	if a > b {
		return a
	}
	return b
}

func truncate(s string, n int) string {
	if len(s) > n {
		return s[:n] + "...[truncated]"
	}
	return s
}

// property-specific extras (audits, tables, lemmas, bounded stand-ins)
var propExtras = map[string]func(*CheckCtx){}

// replayers by obligation kind: try to turn a solver model into a failing run of the real code
var replayers = map[string]func(*CheckCtx, *Item, map[string]any) bool{}
