package main

// Loop structure, invariants (cut at headers), write effects.

import (
	"fmt"
	"go/constant"
	"go/token"
	"go/types"
	"os"
	"sort"
	"strings"

	"golang.org/x/tools/go/ssa"
)

type Loop struct {
	hdr     *ssa.BasicBlock
	body    map[*ssa.BasicBlock]bool
	ordinal int
}

type LoopInfo struct {
	fn       *ssa.Function
	order    []*ssa.BasicBlock
	byHeader map[*ssa.BasicBlock]*Loop
	headers  []*Loop
	back     map[[2]int]bool
}

func (li *LoopInfo) isBack(p, b *ssa.BasicBlock) bool { return li.back[[2]int{p.Index, b.Index}] }
func (li *LoopInfo) hasLoops() bool                   { return len(li.headers) > 0 }

func computeLoops(fn *ssa.Function) *LoopInfo {
	li := &LoopInfo{fn: fn, byHeader: map[*ssa.BasicBlock]*Loop{}, back: map[[2]int]bool{}}
	if len(fn.Blocks) == 0 {
		return li
	}
	// back edges: target dominates source
	for _, b := range fn.Blocks {
		for _, s := range b.Succs {
			if s.Dominates(b) {
				li.back[[2]int{b.Index, s.Index}] = true
				l := li.byHeader[s]
				if l == nil {
					l = &Loop{hdr: s, body: map[*ssa.BasicBlock]bool{s: true}}
					li.byHeader[s] = l
				}
				// natural loop of edge b->s
				stack := []*ssa.BasicBlock{b}
				for len(stack) > 0 {
					n := stack[len(stack)-1]
					stack = stack[:len(stack)-1]
					if l.body[n] {
						continue
					}
					l.body[n] = true
					for _, p := range n.Preds {
						stack = append(stack, p)
					}
				}
			}
		}
	}
	for _, l := range li.byHeader {
		li.headers = append(li.headers, l)
	}
	// ordinal: by smallest block index in the loop (creation order follows source order)
	minIdx := func(l *Loop) int {
		m := 1 << 30
		for b := range l.body {
			if b.Index < m {
				m = b.Index
			}
		}
		return m
	}
	sort.Slice(li.headers, func(i, j int) bool { return minIdx(li.headers[i]) < minIdx(li.headers[j]) })
	for i, l := range li.headers {
		l.ordinal = i + 1
	}
	// reverse postorder ignoring back edges, from entry
	seen := map[*ssa.BasicBlock]bool{}
	var post []*ssa.BasicBlock
	var dfs func(b *ssa.BasicBlock)
	dfs = func(b *ssa.BasicBlock) {
		seen[b] = true
		for i := len(b.Succs) - 1; i >= 0; i-- {
			s := b.Succs[i]
			if li.isBack(b, s) || seen[s] {
				continue
			}
			dfs(s)
		}
		post = append(post, b)
	}
	dfs(fn.Blocks[0])
	for i := len(post) - 1; i >= 0; i-- {
		li.order = append(li.order, post[i])
	}
	return li
}

// ---------- effects ----------

type Effect struct {
	key      string
	base     ssa.Value // nil: unknown base (whole array)
	param    int       // index in fn.Params when base is a parameter, else -1
	all      bool
	origins  []*ssa.Function // with all: the called functions whose unknown effects this stands for (nil entry: external)
	dyn      bool            // with all: may run code chosen at run time (function values, open interface calls, recursion)
	pkg      string          // with all: package of the repo function whose body gave rise to the effect
	ghost    bool            // with all: specification-only (ghost) state may change too (explicit "modifies *" of a contract)
	arrField int             // >0: the location is the memory block arrBase(base, arrField-1) of an array-typed field
	viaKey   string          // elems(x.f): the block behind the slice stored in field key viaKey of object base (read before the call)
}

// arrayFieldElem: if field i of struct type st is an array, its element type.
func arrayFieldElem(st types.Type, i int) (types.Type, bool) {
	u, ok := st.Underlying().(*types.Struct)
	if !ok || i >= u.NumFields() {
		return nil, false
	}
	at, ok := u.Field(i).Type().Underlying().(*types.Array)
	if !ok {
		return nil, false
	}
	return at.Elem(), true
}

func regFieldKey(so *Sorts, st types.Type, i int) string {
	if et, ok := arrayFieldElem(st, i); ok {
		es := so.sortOf(et)
		return regKeyS(so, "M:"+es, arrSort(sInt, arrSort(sInt, es)))
	}
	k := fieldKey(st, i)
	if _, ok := so.keySort[k]; !ok {
		so.keySort[k] = arrSort(sInt, so.sortOf(st.Underlying().(*types.Struct).Field(i).Type()))
	}
	return k
}

func regKeyS(so *Sorts, key, sort string) string {
	if _, ok := so.keySort[key]; !ok {
		so.keySort[key] = sort
	}
	return key
}

// addrEffect describes the heap location written through addr.
// arrField > 0: the location lies in the memory block of array field #arrField-1 of object base.
func (p *Prog) addrEffect(so *Sorts, addr ssa.Value) (key string, base ssa.Value, fresh bool, arrField int, ok bool) {
	memKeyOf := func(et types.Type) string {
		es := so.sortOf(et)
		return regKeyS(so, "M:"+es, arrSort(sInt, arrSort(sInt, es)))
	}
	switch a := addr.(type) {
	case *ssa.FieldAddr:
		pt := a.X.Type().Underlying().(*types.Pointer).Elem()
		switch a.X.(type) {
		case *ssa.FieldAddr, *ssa.IndexAddr:
			// field of a struct value nested in another location: the enclosing location is what changes
			return p.addrEffect(so, a.X)
		}
		_, isAlloc := a.X.(*ssa.Alloc)
		if _, isArr := arrayFieldElem(pt, a.Field); isArr {
			return regFieldKey(so, pt, a.Field), a.X, isAlloc, a.Field + 1, true
		}
		return regFieldKey(so, pt, a.Field), a.X, isAlloc, 0, true
	case *ssa.IndexAddr:
		switch xt := a.X.Type().Underlying().(type) {
		case *types.Slice:
			return memKeyOf(xt.Elem()), nil, false, 0, true
		case *types.Pointer:
			switch a.X.(type) {
			case *ssa.FieldAddr, *ssa.IndexAddr:
				return p.addrEffect(so, a.X)
			}
			at := xt.Elem().Underlying().(*types.Array)
			_, isAlloc := a.X.(*ssa.Alloc)
			return memKeyOf(at.Elem()), a.X, isAlloc, 0, true
		}
	case *ssa.Global:
		return regKeyS(so, "G:"+a.Pkg.Pkg.Path()+"."+a.Name(), so.sortOf(a.Type().(*types.Pointer).Elem())), nil, false, 0, true
	case *ssa.Alloc:
		et := a.Type().(*types.Pointer).Elem()
		if _, isStruct := et.Underlying().(*types.Struct); isStruct {
			return "", a, true, 0, false // whole-struct store to fresh object: caller expands
		}
		if at, isArr := et.Underlying().(*types.Array); isArr {
			return memKeyOf(at.Elem()), a, true, 0, true
		}
		return regKeyS(so, "C:"+so.sortOf(et), arrSort(sInt, so.sortOf(et))), a, true, 0, true
	default:
		if pt, isPtr := addr.Type().Underlying().(*types.Pointer); isPtr {
			if at, isArr := pt.Elem().Underlying().(*types.Array); isArr {
				return memKeyOf(at.Elem()), addr, false, 0, true
			}
			if _, isStruct := pt.Elem().Underlying().(*types.Struct); !isStruct {
				return regKeyS(so, "C:"+so.sortOf(pt.Elem()), arrSort(sInt, so.sortOf(pt.Elem()))), addr, false, 0, true
			}
		}
	}
	return "", nil, false, 0, false
}

func paramIndex(fn *ssa.Function, v ssa.Value) int {
	for i, p := range fn.Params {
		if p == v {
			return i
		}
	}
	return -1
}

// effectsOfInstrs computes the heap write effects of a set of blocks.
func (p *Prog) effectsOfBlocks(so *Sorts, fn *ssa.Function, blocks []*ssa.BasicBlock, visiting map[*ssa.Function]bool) []Effect {
	var effs []Effect
	addEff := func(e Effect) { effs = append(effs, e) }
	for _, b := range blocks {
		for _, ins := range b.Instrs {
			switch x := ins.(type) {
			case *ssa.Store:
				key, base, fresh, arrField, ok := p.addrEffect(so, x.Addr)
				if !ok {
					if base != nil && fresh {
						continue
					}
					// whole struct store through pointer
					if pt, isPtr := x.Addr.Type().Underlying().(*types.Pointer); isPtr {
						if st, isStruct := pt.Elem().Underlying().(*types.Struct); isStruct {
							for i := 0; i < st.NumFields(); i++ {
								af := 0
								if _, isArr := arrayFieldElem(pt.Elem(), i); isArr {
									af = i + 1
								}
								addEff(Effect{key: regFieldKey(so, pt.Elem(), i), base: x.Addr, param: paramIndex(fn, x.Addr), arrField: af})
							}
							continue
						}
					}
					addEff(Effect{all: true, dyn: true, pkg: pkgOf(fn)})
					continue
				}
				if fresh {
					// object allocated in this function: invisible to callers, but inside a loop the
					// array as a whole changes -> record with unknown base
					addEff(Effect{key: key, base: nil, param: -2})
					continue
				}
				addEff(Effect{key: key, base: base, param: paramIndex(fn, base), arrField: arrField})
			case *ssa.Next:
				if x.IsString {
					addEff(Effect{key: regKeyS(so, "IT:pos", arrSort(sInt, sInt)), base: x.Iter, param: -2})
				}
			case *ssa.MapUpdate:
				mt := x.Map.Type().Underlying().(*types.Map)
				ks, vs := so.sortOf(mt.Key()), so.sortOf(mt.Elem())
				addEff(Effect{key: regKeyS(so, "MH:"+ks+":"+vs, arrSort(sInt, arrSort(ks, sBool))), param: -1})
				addEff(Effect{key: regKeyS(so, "MV:"+ks+":"+vs, arrSort(sInt, arrSort(ks, vs))), param: -1})
			case ssa.CallInstruction:
				for _, e := range p.callEffects(so, fn, x.Common(), visiting) {
					addEff(e)
				}
			}
		}
	}
	return effs
}

func (p *Prog) funcEffects(so *Sorts, fn *ssa.Function, visiting map[*ssa.Function]bool) []Effect {
	if e, ok := so.effCache[fn]; ok {
		return e
	}
	if visiting[fn] {
		return []Effect{{all: true, dyn: p.bodyHasDyn(so, fn), pkg: pkgOf(fn), origins: []*ssa.Function{fn}}}
	}
	if c := p.contracts.get(funcKey(fn)); c != nil && c.HasMod {
		return p.contractEffects(so, fn, c)
	}
	if len(fn.Blocks) == 0 {
		if p.externPure(fn) {
			return nil
		}
		return []Effect{{all: true, pkg: "extern", origins: []*ssa.Function{nil}}}
	}
	visiting[fn] = true
	effs := p.effectsOfBlocks(so, fn, fn.Blocks, visiting)
	delete(visiting, fn)
	// keep only effects visible to callers: param-based or unknown-base
	var out []Effect
	for _, e := range effs {
		if e.all {
			// summarise: dyn if any all-effect is dyn; origin package = this function unless all are external
			agg := Effect{all: true, pkg: pkgOf(fn), dyn: p.bodyHasDyn(so, fn), origins: []*ssa.Function{fn}}
			for _, e2 := range effs {
				if e2.all {
					agg.dyn = agg.dyn || e2.dyn
					agg.ghost = agg.ghost || e2.ghost
					if e2.pkg != "extern" && e2.pkg != "" && e2.pkg != pkgOf(fn) && importsEval(e2.pkg) {
						agg.pkg = e2.pkg
					}
				}
			}
			out = []Effect{agg}
			break
		}
		if e.param == -2 {
			continue // fresh object
		}
		if e.param < 0 {
			e.base = nil
		}
		out = append(out, e)
	}
	so.effCache[fn] = out
	return out
}

func (p *Prog) contractEffects(so *Sorts, fn *ssa.Function, c *Contract) []Effect {
	var out []Effect
	for _, m := range c.Modifies {
		if m == "*" {
			return []Effect{{all: true, ghost: true, dyn: p.bodyHasDyn(so, fn), pkg: pkgOf(fn), origins: []*ssa.Function{fn}}}
		}
		if m == "callbacks" {
			// resolved at each call site: the effects of the function values passed as arguments
			out = append(out, Effect{key: "$callbacks", param: -3})
			continue
		}
		if m == "heap" {
			// everything except ghost (specification-only) state
			out = append(out, Effect{all: true, dyn: p.bodyHasDyn(so, fn), pkg: pkgOf(fn), origins: []*ssa.Function{fn}})
			continue
		}
		if strings.HasPrefix(m, "elems(") {
			name := strings.TrimSuffix(strings.TrimPrefix(m, "elems("), ")")
			pnames, ptypes := sigParams(fn)
			if dot := strings.IndexByte(name, '.'); dot > 0 {
				// elems(x.f): the elements of the slice held in field f of parameter x
				for i := range pnames {
					if pnames[i] != name[:dot] {
						continue
					}
					st, _ := derefStruct(ptypes[i])
					if fi, ok := findField(st, name[dot+1:]); ok {
						if sl, isSl := st.Underlying().(*types.Struct).Field(fi).Type().Underlying().(*types.Slice); isSl {
							es := so.sortOf(sl.Elem())
							var base ssa.Value = paramValue{i}
							if i < len(fn.Params) {
								base = fn.Params[i]
							}
							out = append(out, Effect{key: regKeyS(so, "M:"+es, arrSort(sInt, arrSort(sInt, es))), base: base, param: i, viaKey: regFieldKey(so, st, fi)})
						}
					}
				}
				continue
			}
			for i := range pnames {
				if pnames[i] == name {
					if st, ok := ptypes[i].Underlying().(*types.Slice); ok {
						es := so.sortOf(st.Elem())
						var base ssa.Value = paramValue{i}
						if i < len(fn.Params) {
							base = fn.Params[i]
						}
						out = append(out, Effect{key: regKeyS(so, "M:"+es, arrSort(sInt, arrSort(sInt, es))), base: base, param: i})
					}
				}
			}
			continue
		}
		if strings.HasPrefix(m, "ghost ") {
			name := strings.TrimSpace(strings.TrimPrefix(m, "ghost "))
			out = append(out, Effect{key: regKeyS(so, "GH:"+name, arrSort(sInt, sInt)), param: -1})
			continue
		}
		if strings.HasPrefix(m, "map ") {
			name := strings.TrimSpace(strings.TrimPrefix(m, "map "))
			pk := fnPkg(fn)
			if i := strings.LastIndex(name, "."); i >= 0 {
				for _, sp := range p.prog.AllPackages() {
					if sp.Pkg.Name() == name[:i] || sp.Pkg.Path() == name[:i] {
						pk = sp.Pkg
					}
				}
				name = name[i+1:]
			}
			o := pk.Scope().Lookup(name)
			if o == nil {
				panic(fmt.Sprintf("%s:%d: unknown map global %q", c.File, c.Line, m))
			}
			mt := o.Type().Underlying().(*types.Map)
			ks, vs := so.sortOf(mt.Key()), so.sortOf(mt.Elem())
			out = append(out, Effect{key: regKeyS(so, "MH:"+ks+":"+vs, arrSort(sInt, arrSort(ks, sBool))), param: -1})
			out = append(out, Effect{key: regKeyS(so, "MV:"+ks+":"+vs, arrSort(sInt, arrSort(ks, vs))), param: -1})
			continue
		}
		if strings.HasPrefix(m, "global ") {
			out = append(out, Effect{key: "G:" + strings.TrimSpace(strings.TrimPrefix(m, "global ")), param: -1})
			continue
		}
		if strings.HasPrefix(m, "key ") {
			out = append(out, Effect{key: strings.TrimSpace(strings.TrimPrefix(m, "key ")), param: -1})
			continue
		}
		parts := strings.Split(m, ".")
		if len(parts) == 3 {
			// pkg.Type.field: any object of that type
			done := false
			for _, sp := range p.prog.AllPackages() {
				if sp.Pkg.Name() == parts[0] && strings.HasPrefix(sp.Pkg.Path(), "grol.io/grol") {
					if tn := sp.Pkg.Scope().Lookup(parts[1]); tn != nil {
						if fi, ok := findField(tn.Type(), parts[2]); ok {
							out = append(out, Effect{key: regFieldKey(so, tn.Type(), fi), param: -1})
							done = true
						}
					}
				}
			}
			if done {
				continue
			}
		}
		if len(parts) == 2 {
			found := false
			pnames, ptypes := sigParams(fn)
			for i := range pnames {
				if pnames[i] == parts[0] {
					st, _ := derefStruct(ptypes[i])
					if fi, ok := findField(st, parts[1]); ok {
						var base ssa.Value = paramValue{i}
						if i < len(fn.Params) {
							base = fn.Params[i]
						}
						af := 0
						if _, isArr := arrayFieldElem(st, fi); isArr {
							af = fi + 1
						}
						out = append(out, Effect{key: regFieldKey(so, st, fi), base: base, param: i, arrField: af})
						found = true
					}
				}
			}
			if found {
				continue
			}
			// Type.field : any object of that type
			if tn := fnPkg(fn).Scope().Lookup(parts[0]); tn != nil {
				if fi, ok := findField(tn.Type(), parts[1]); ok {
					out = append(out, Effect{key: regFieldKey(so, tn.Type(), fi), param: -1})
					continue
				}
			}
		}
		panic(fmt.Sprintf("%s:%d: cannot interpret modifies target %q", c.File, c.Line, m))
	}
	return out
}

// callEffects maps the callee's effects to the caller's values.
func (p *Prog) callEffects(so *Sorts, caller *ssa.Function, cc *ssa.CallCommon, visiting map[*ssa.Function]bool) []Effect {
	if cc.IsInvoke() {
		// union over implementers
		var out []Effect
		for _, f := range p.invokeTargets(cc) {
			args := append([]ssa.Value{cc.Value}, cc.Args...)
			for _, e := range p.funcEffects(so, f, visiting) {
				out = append(out, mapEffect(caller, e, f, args))
			}
		}
		if len(p.invokeTargets(cc)) == 0 {
			if n, ok := cc.Value.Type().(*types.Named); ok && n.Obj().Pkg() != nil && !strings.HasPrefix(n.Obj().Pkg().Path(), "grol.io/grol") {
				return nil // interface declared outside the repo with no repo implementer: cannot touch modelled memory
			}
			return []Effect{{all: true, dyn: true, pkg: pkgOf(caller)}}
		}
		return out
	}
	switch v := cc.Value.(type) {
	case *ssa.Builtin:
		switch v.Name() {
		case "append":
			es := so.sortOf(cc.Args[0].Type().Underlying().(*types.Slice).Elem())
			return []Effect{{key: regKeyS(so, "M:"+es, arrSort(sInt, arrSort(sInt, es))), param: -1}}
		case "copy":
			es := so.sortOf(cc.Args[0].Type().Underlying().(*types.Slice).Elem())
			return []Effect{{key: regKeyS(so, "M:"+es, arrSort(sInt, arrSort(sInt, es))), param: -1}}
		case "delete":
			mt := cc.Args[0].Type().Underlying().(*types.Map)
			ks, vs := so.sortOf(mt.Key()), so.sortOf(mt.Elem())
			return []Effect{{key: regKeyS(so, "MH:"+ks+":"+vs, arrSort(sInt, arrSort(ks, sBool))), param: -1}}
		}
		return nil
	case *ssa.Function:
		var out []Effect
		for _, e := range p.funcEffects(so, v, visiting) {
			out = append(out, mapEffect(caller, e, v, cc.Args))
		}
		return out
	case *ssa.MakeClosure:
		f := v.Fn.(*ssa.Function)
		var out []Effect
		for _, e := range p.funcEffects(so, f, visiting) {
			e2 := mapEffect(caller, e, f, cc.Args)
			out = append(out, e2)
		}
		return out
	}
	return []Effect{{all: true, dyn: true, pkg: pkgOf(caller)}}
}

func mapEffect(caller *ssa.Function, e Effect, callee *ssa.Function, args []ssa.Value) Effect {
	if e.all {
		return e
	}
	if e.param >= 0 && e.param < len(args) {
		a := args[e.param]
		return Effect{key: e.key, base: a, param: paramIndex(caller, a), arrField: e.arrField}
	}
	return Effect{key: e.key, base: nil, param: -1}
}

// ---------- loop entry / back edge ----------

func (ex *Exec) loopClauses(l *Loop) *LoopSpec {
	if ex.contract == nil || ex.depth > 0 {
		return nil
	}
	ls := ex.contract.Loops[l.ordinal]
	all := ex.contract.Loops[0]
	if all == nil && ls == nil {
		return nil
	}
	// invariants scoped to a property ("loop 1 invariant @C04 e") exist only when that property is checked
	var m LoopSpec
	if ls != nil {
		m = *ls
		m.Invariants = nil
		m.Exits = nil
		for _, e := range ls.Exits {
			if ex.q.propActive(e.OnlyProp) {
				m.Exits = append(m.Exits, e)
			}
		}
	}
	for _, src := range []*LoopSpec{all, ls} {
		if src == nil {
			continue
		}
		for _, inv := range src.Invariants {
			if ex.q.propActive(inv.OnlyProp) {
				m.Invariants = append(m.Invariants, inv)
			}
		}
	}
	return &m
}

// loopVars builds the name environment visible to loop clauses at header hdr,
// with phi nodes of hdr bound through phiVal.
func (ex *Exec) loopVars(hdr *ssa.BasicBlock, phiVal func(*ssa.Phi) Term, heap *Heap) map[string]SV {
	vars := ex.paramVars()
	for n, w := range ex.witness {
		vars[n] = w
	}
	// address-taken locals (not lifted to SSA registers): the name denotes their current content
	for _, b := range ex.fn.Blocks {
		if b != hdr && !b.Dominates(hdr) {
			continue
		}
		for _, ins := range b.Instrs {
			al, ok := ins.(*ssa.Alloc)
			if !ok || al.Comment == "" || strings.ContainsAny(al.Comment, " .()") {
				continue
			}
			if _, have := ex.vals[al]; !have || heap == nil {
				continue
			}
			func() {
				defer func() { recover() }()
				et := al.Type().(*types.Pointer).Elem()
				vars[al.Comment] = SV{ex.load(ex.locOf(al), heap), et}
			}()
		}
	}
	// locals defined before the loop: latest dominating DebugRef / phi by name
	type cand struct {
		depth, idx int
		sv         SV
	}
	best := map[string]cand{}
	domDepth := func(b *ssa.BasicBlock) int {
		d := 0
		for x := b.Idom(); x != nil; x = x.Idom() {
			d++
		}
		return d
	}
	for _, b := range ex.fn.Blocks {
		if b == hdr || !b.Dominates(hdr) {
			continue
		}
		d := domDepth(b)
		for i, ins := range b.Instrs {
			var name string
			var v ssa.Value
			switch x := ins.(type) {
			case *ssa.DebugRef:
				if x.IsAddr {
					continue
				}
				obj := x.Object()
				if obj == nil {
					continue
				}
				if vv, isVar := obj.(*types.Var); !isVar || vv.IsField() {
					continue
				}
				name, v = obj.Name(), x.X
			case *ssa.Phi:
				if x.Comment == "" {
					continue
				}
				name, v = strings.ReplaceAll(x.Comment, ".", "_"), x
			default:
				continue
			}
			t, ok := ex.vals[v]
			if !ok {
				if c, isC := v.(*ssa.Const); isC {
					func() {
						defer func() { recover() }()
						t = ex.constTerm(c)
						ok = true
					}()
				}
				if !ok {
					continue
				}
			}
			if c, had := best[name]; !had || d > c.depth || (d == c.depth && i > c.idx) {
				best[name] = cand{d, i, SV{t, v.Type()}}
			}
		}
	}
	for n, c := range best {
		if _, isParam := vars[n]; !isParam {
			vars[n] = c.sv
		}
	}
	for _, ins := range hdr.Instrs {
		phi, ok := ins.(*ssa.Phi)
		if !ok {
			break
		}
		if phi.Comment != "" {
			vars[strings.ReplaceAll(phi.Comment, ".", "_")] = SV{phiVal(phi), phi.Type()}
		}
	}
	return vars
}

func (ex *Exec) paramVars() map[string]SV {
	vars := map[string]SV{}
	for i, p := range ex.fn.Params {
		vars[p.Name()] = SV{ex.params[i], p.Type()}
		vars[p.Name()+"0"] = SV{ex.params[i], p.Type()} // entry value (parameters may be reassigned in the body)
	}
	for i, fv := range ex.fn.FreeVars {
		if i < len(ex.freeVars) {
			vars[fv.Name()] = SV{ex.freeVars[i], fv.Type()}
		}
	}
	return vars
}

func (ex *Exec) isFreeVarCell(name string, v SV) bool {
	for i, fv := range ex.fn.FreeVars {
		if fv.Name() == name && i < len(ex.freeVars) && ex.freeVars[i].S == v.t.S {
			return true
		}
	}
	return false
}

func (ex *Exec) specCtx(vars map[string]SV, heap *Heap) *SpecCtx {
	return &SpecCtx{ex: ex, pkg: ex.fn.Pkg, vars: vars, heap: heap, old: ex.entryHeap}
}

func (ex *Exec) enterLoop(b *ssa.BasicBlock, l *Loop, conds []Term, heaps []*Heap, predIdx []int, reach Term) *Heap {
	q := ex.q
	spec := ex.loopClauses(l)
	// 1. invariants hold on entry
	if spec != nil {
		for k, pi := range predIdx {
			vars := ex.loopVars(b, func(phi *ssa.Phi) Term { return ex.val(phi.Edges[pi]) }, heaps[k])
			sc := ex.specCtx(vars, heaps[k])
			for _, inv := range spec.Invariants {
				g := sc.evalBool(inv)
				q.oblige(fmt.Sprintf("%s/inv.init@loop%d.%s", q.fnName, l.ordinal, inv.Label), "inv.init", conds[k], g,
					ex.P.fset.Position(firstPos(b)), "loop invariant on entry: "+inv.Text)
			}
		}
	}
	heapIn := q.mergeHeaps(conds, heaps)
	// 2. havoc phis
	ls := &loopState{hdr: b, phis: map[*ssa.Phi]Term{}, ordinal: l.ordinal}
	for _, ins := range b.Instrs {
		phi, ok := ins.(*ssa.Phi)
		if !ok {
			break
		}
		if _, isLoc := ex.locs[phi.Edges[predIdx[0]]]; isLoc {
			unsupported("loop-carried interior pointer")
		}
		name := phi.Comment
		if name == "" {
			name = phi.Name()
		}
		v := ex.havocVal(fmt.Sprintf("%s_loop%d_%s", ex.fn.Name(), l.ordinal, name), phi.Type(), reach)
		ex.vals[phi] = v
		ls.phis[phi] = v
		// a counter that starts at a constant and is only ever incremented by a positive constant (the index of a
		// range loop: -1, then +1 per iteration) never falls below its start - in mathematical integers
		if v.Sort == sInt && len(phi.Edges) >= 2 {
			for k := range phi.Edges {
				// one edge carries the constant, every other edge (several back edges: `continue`, if without else)
				// carries the same increment of this phi
				c0, isC := phi.Edges[k].(*ssa.Const)
				inc, isB := phi.Edges[(k+1)%len(phi.Edges)].(*ssa.BinOp)
				for j, e := range phi.Edges {
					if j != k && e != ssa.Value(inc) {
						isB = false
					}
				}
				if !isC || !isB || c0.Value == nil || inc.Op != token.ADD || inc.X != ssa.Value(phi) {
					continue
				}
				step, isStep := inc.Y.(*ssa.Const)
				if !isStep || step.Value == nil {
					continue
				}
				if sv, ok := constant.Int64Val(step.Value); ok && sv > 0 {
					if c, ok := constant.Int64Val(c0.Value); ok {
						q.assume(implies(reach, le(tInt(c), v)))
						// ... and when the loop continues only while counter+step < len(x), for a length taken before
						// the loop, it stays below that length (range loops: index < len)
						if c == -1 && sv == 1 {
							for _, j := range b.Instrs {
								cmp, isCmp := j.(*ssa.BinOp)
								if !isCmp || cmp.Op != token.LSS || cmp.X != ssa.Value(inc) {
									continue
								}
								lc, isCall := cmp.Y.(*ssa.Call)
								if !isCall || l.body[lc.Block()] {
									continue
								}
								if bi, isB := lc.Call.Value.(*ssa.Builtin); isB && bi.Name() == "len" {
									if lv, has := ex.vals[lc]; has && lv.Sort == sInt {
										q.assume(implies(reach, lt(v, lv)))
									}
								}
							}
						}
					}
				}
			}
		}
	}
	// 3. havoc heap
	var blocks []*ssa.BasicBlock
	for bb := range l.body {
		blocks = append(blocks, bb)
	}
	sort.Sort(byIndex(blocks))
	effs := ex.P.effectsOfBlocks(q.so, ex.fn, blocks, map[*ssa.Function]bool{ex.fn: true})
	heapH := ex.applyEffects(heapIn, effs, l, reach)
	ls.heap = heapH
	// 4. assume invariants
	vars := ex.loopVars(b, func(phi *ssa.Phi) Term { return ex.vals[phi] }, heapH)
	ls.vars = vars
	if spec != nil {
		sc := ex.specCtx(vars, heapH)
		for _, inv := range spec.Invariants {
			q.assume(implies(reach, sc.evalBool(inv)))
		}
		if spec.Decreases != nil {
			m := q.def("measure", sc.evalInt(spec.Decreases))
			ls.measure = &m
		}
	}
	ex.lstate[b] = ls
	return heapH
}

// applyEffects havocs the locations named by effs.  Bases defined outside the loop (or any, when l==nil)
// are havoced pointwise, others wholesale.
func (ex *Exec) applyEffects(h *Heap, effs []Effect, l *Loop, guard Term) *Heap {
	q := ex.q
	for _, e := range effs {
		if e.all {
			q.note("%s: havoc of the whole heap (callee or loop body with unknown effects)", ex.fn.Name())
			ghostToo := false
			for _, e2 := range effs {
				if e2.all && e2.ghost {
					ghostToo = true
				}
			}
			// which struct fields / globals can the code behind these effects write at all?
			anyDyn := false
			var origins []*ssa.Function
			for _, e2 := range effs {
				if e2.all {
					if e2.dyn || len(e2.origins) == 0 {
						anyDyn = true
					}
					origins = append(origins, e2.origins...)
				}
			}
			keepEval := !anyDyn
			if os.Getenv("GOVC_DEBUG_HAVOC") != "" {
				for _, e2 := range effs {
					if e2.all {
						var on []string
						for _, o := range e2.origins {
							if o != nil {
								on = append(on, o.Name())
							}
						}
						fmt.Fprintf(os.Stderr, "HAVOC in %s: dyn=%v origins=%v pkg=%s\n", ex.fn.Name(), e2.dyn, on, e2.pkg)
					}
				}
			}
			// locations named by the other (specific) effects of the same code are written too
			specific := map[string]bool{}
			for _, e2 := range effs {
				if !e2.all {
					specific[e2.key] = true
				}
			}
			canWrite := func(k string) bool {
				if anyDyn {
					return true
				}
				for _, w := range ex.P.writersOf(q.so, k) {
					for _, o := range origins {
						if o != nil && ex.P.reaches(o, w) {
							return true
						}
					}
				}
				for _, o := range origins {
					if o != nil && ex.P.declaredWriter(q.so, o, k) {
						return true
					}
				}
				return false
			}
			// code outside package eval (and not running caller-chosen code) cannot write eval's struct fields;
			// ghost state changes only through explicit "modifies *" / "modifies ghost" clauses
			nh := ex.havocAllKeepWith(h, guard, func(nh *Heap) {
				nh.gen.parent = h.clone()
				nh.gen.keep = func(k string) bool {
					if specific[k] {
						return false
					}
					if keepEval && (strings.HasPrefix(k, "F:") || strings.HasPrefix(k, "G:")) && !strings.HasPrefix(k, "F:anon") {
						// write audit: no function reachable from the callees stores to this field / global
						if _, isArr := q.so.keySort[k]; isArr && !canWrite(k) {
							return true
						}
					}
					return !ghostToo && strings.HasPrefix(k, "GH:")
				}
				nh.gen.keepOld = func(k string) bool {
					if !keepEval || specific[k] {
						return false
					}
					if strings.HasPrefix(k, "F:") {
						// some reachable function writes this field, but only in objects it allocates itself
						if anyDyn || strings.HasPrefix(k, "F:anon") {
							return false
						}
						for _, w := range ex.P.writersOf(q.so, "NF:"+k) {
							for _, o := range origins {
								if o != nil && ex.P.reaches(o, w) {
									return false
								}
							}
						}
						for _, o := range origins {
							if o != nil && ex.P.declaredWriter(q.so, o, k) {
								return false
							}
						}
						return true
					}
					return !canWrite(k)
				}
			}, l)
			return nh
		}
	}
	nh := h.clone()
	byKey := map[string][]Effect{}
	for _, e := range effs {
		byKey[e.key] = append(byKey[e.key], e)
	}
	for _, key := range sortedKeys(byKey) {
		sortS, ok := q.so.keySort[key]
		if !ok {
			continue // key never read or written symbolically so far; it will be created fresh on first use
		}
		whole := false
		var bases []Term
		seen := map[string]bool{}
		for _, e := range byKey[key] {
			if e.base == nil {
				whole = true
				break
			}
			if l != nil {
				if ins, isIns := e.base.(ssa.Instruction); isIns && l.body[ins.Block()] {
					whole = true
					break
				}
			}
			bt, ok := ex.vals[e.base]
			if !ok {
				whole = true
				break
			}
			if e.arrField > 0 {
				bt = arrBase(bt, e.arrField-1)
			}
			if e.viaKey != "" {
				bt = sel(q.heapGet(h, e.viaKey), bt) // the slice the field held before the call
			}
			if bt.Sort == sSlice {
				bt = slBase(bt) // elems(s): the block behind the slice
			}
			if !seen[bt.S] {
				seen[bt.S] = true
				bases = append(bases, bt)
			}
		}
		if strings.HasPrefix(key, "G:") || key == allocKey {
			whole = true
		}
		if whole {
			nh.m[key] = q.fresh("hv_"+key, sortS)
			continue
		}
		cur := q.heapGet(nh, key)
		for _, bt := range bases {
			cur = store(cur, bt, q.fresh("hv_"+key, elemSortOf(sortS)))
		}
		q.heapSet(nh, key, cur)
	}
	// keys not yet registered but possibly written: handled by making untouched keys resolve through a new gen
	// (conservative: any key first used later gets an unconstrained symbol).
	unknownKeys := false
	for k := range byKey {
		if _, ok := q.so.keySort[k]; !ok {
			unknownKeys = true
		}
	}
	if unknownKeys {
		// keys never used so far may be written: they resolve to fresh symbols of a new generation when first used;
		// every other key still resolves through the heap before the call
		written := map[string]bool{}
		for k := range byKey {
			if _, ok := q.so.keySort[k]; !ok {
				written[k] = true
			}
		}
		before := nh.clone()
		g := q.newGen()
		g.parent = before
		g.keep = func(k string) bool { return !written[k] }
		nh.gen = g
	}
	// allocation may have advanced
	a := q.fresh("alloc", sInt)
	q.assume(le(q.heapGet(h, allocKey), a))
	nh.m[allocKey] = a
	touchedGlobal := false
	for k := range byKey {
		if strings.HasPrefix(k, "G:") {
			touchedGlobal = true
		}
	}
	if (touchedGlobal || unknownKeys) && q.assumeGlobals != nil {
		q.assumeGlobals(nh)
	}
	return nh
}

// exitEdges emits the "loop N exit" obligations for edges b->s that leave a loop containing b.
func (ex *Exec) exitEdges(b *ssa.BasicBlock, heap *Heap, reach Term) {
	if ex.depth > 0 || ex.contract == nil {
		return
	}
	for _, l := range ex.li.headers {
		if !l.body[b] {
			continue
		}
		spec := ex.loopClauses(l)
		if spec == nil || len(spec.Exits) == 0 {
			continue
		}
		for _, s := range b.Succs {
			if l.body[s] {
				continue
			}
			cond := and(reach, ex.edgeCond(b, s, 0))
			// header phis: values at the end of this iteration when b also carries the back edge, else current
			pi := -1
			for i, p := range l.hdr.Preds {
				if p == b {
					pi = i
				}
			}
			vars := ex.loopVars(l.hdr, func(phi *ssa.Phi) Term {
				if pi >= 0 {
					return ex.val(phi.Edges[pi])
				}
				return ex.vals[phi]
			}, heap)
			sc := ex.specCtx(vars, heap)
			pos := ex.P.fset.Position(firstPos(l.hdr))
			for _, c := range spec.Exits {
				ex.q.oblige(fmt.Sprintf("%s/inv.exit@loop%d.%s", ex.q.fnName, l.ordinal, c.Label), "inv.exit", cond, sc.evalBool(c), pos, "on leaving the loop: "+c.Text)
			}
		}
	}
}

func firstPos(b *ssa.BasicBlock) token.Pos {
	for _, i := range b.Instrs {
		if i.Pos().IsValid() {
			return i.Pos()
		}
	}
	return token.NoPos
}

func (ex *Exec) backEdge(b, hdr *ssa.BasicBlock, cond Term, heap *Heap) {
	q := ex.q
	l := ex.li.byHeader[hdr]
	ls := ex.lstate[hdr]
	spec := ex.loopClauses(l)
	pi := -1
	for i, p := range hdr.Preds {
		if p == b {
			pi = i
		}
	}
	pos := ex.P.fset.Position(firstPos(hdr))
	if spec == nil {
		return
	}
	vars := ex.loopVars(hdr, func(phi *ssa.Phi) Term { return ex.val(phi.Edges[pi]) }, heap)
	// loop-invariant locals keep the header binding
	sc := ex.specCtx(vars, heap)
	for _, inv := range spec.Invariants {
		g := sc.evalBool(inv)
		q.oblige(fmt.Sprintf("%s/inv.step@loop%d.%s", q.fnName, l.ordinal, inv.Label), "inv.step", cond, g, pos, "loop invariant preserved: "+inv.Text)
	}
	if spec.Decreases != nil && ls.measure != nil {
		m2 := sc.evalInt(spec.Decreases)
		q.oblige(fmt.Sprintf("%s/dec@loop%d", q.fnName, l.ordinal), "dec", cond, and(le(tInt(0), *ls.measure), lt(m2, *ls.measure)), pos, "loop measure decreases: "+spec.Decreases.Text)
	}
}

func fnPkg(f *ssa.Function) *types.Package {
	if f.Pkg != nil {
		return f.Pkg.Pkg
	}
	if f.Object() != nil {
		return f.Object().Pkg()
	}
	return nil
}

func pkgOf(f *ssa.Function) string {
	for f != nil && f.Pkg == nil && f.Parent() != nil {
		f = f.Parent()
	}
	if f != nil && f.Pkg != nil {
		return f.Pkg.Pkg.Path()
	}
	return "extern"
}

// importsEval: packages whose code can name eval.State (eval itself and its importers).
func importsEval(pkg string) bool {
	switch pkg {
	case "grol.io/grol/eval", "grol.io/grol/repl", "grol.io/grol/extensions", "grol.io/grol", "grol.io/grol/wasm":
		return true
	}
	return false
}

// bodyHasDyn: fn may (transitively, through static calls and interface dispatch to repo methods) execute a call
// through a function value, i.e. run code chosen at run time.  Computed once for the whole repo as a backward
// reachability over the call graph.
func (p *Prog) bodyHasDyn(so *Sorts, fn *ssa.Function) bool {
	if p.dynSet == nil {
		p.dynSet = map[*ssa.Function]bool{}
		callers := map[*ssa.Function][]*ssa.Function{}
		var work []*ssa.Function
		for _, f := range p.allFuncs() {
			for _, b := range f.Blocks {
				for _, ins := range b.Instrs {
					ci, ok := ins.(ssa.CallInstruction)
					if !ok {
						continue
					}
					cc := ci.Common()
					if cc.IsInvoke() {
						ts := p.invokeTargets(cc)
						if len(ts) == 0 {
							if n, ok := cc.Value.Type().(*types.Named); ok && n.Obj().Pkg() != nil && strings.HasPrefix(n.Obj().Pkg().Path(), "grol.io/grol") {
								if !p.dynSet[f] {
									p.dynSet[f] = true
									work = append(work, f)
								}
							}
						}
						for _, t := range ts {
							callers[t] = append(callers[t], f)
						}
						continue
					}
					switch v := cc.Value.(type) {
					case *ssa.Builtin:
					case *ssa.Function:
						callers[v] = append(callers[v], f)
						// function values handed to external code are called by it
						if len(v.Blocks) == 0 {
							for _, a := range cc.Args {
								switch av := a.(type) {
								case *ssa.Function:
									callers[av] = append(callers[av], f)
								case *ssa.MakeClosure:
									callers[av.Fn.(*ssa.Function)] = append(callers[av.Fn.(*ssa.Function)], f)
								default:
									if _, isSig := a.Type().Underlying().(*types.Signature); isSig {
										if !p.dynSet[f] {
											p.dynSet[f] = true
											work = append(work, f)
										}
									}
								}
							}
						}
					case *ssa.MakeClosure:
						callers[v.Fn.(*ssa.Function)] = append(callers[v.Fn.(*ssa.Function)], f)
					default:
						if !p.dynSet[f] {
							p.dynSet[f] = true
							work = append(work, f)
						}
					}
				}
			}
		}
		for len(work) > 0 {
			f := work[len(work)-1]
			work = work[:len(work)-1]
			for _, c := range callers[f] {
				if !p.dynSet[c] {
					p.dynSet[c] = true
					work = append(work, c)
				}
			}
		}
	}
	return p.dynSet[fn]
}

// writersOf: repo functions containing a store whose location is heap key k (struct field or global).
func (p *Prog) writersOf(so *Sorts, k string) []*ssa.Function {
	if p.writers == nil {
		p.writers = map[string][]*ssa.Function{}
		scratch := newSorts(false)
		for _, f := range p.allFuncs() {
			seen := map[string]bool{}
			for _, b := range f.Blocks {
				for _, ins := range b.Instrs {
					if call, isCall := ins.(ssa.CallInstruction); isCall {
						for _, kk := range p.memWritesOfCall(scratch, call.Common()) {
							if !seen[kk] {
								seen[kk] = true
								p.writers[kk] = append(p.writers[kk], f)
							}
						}
						continue
					}
					st, ok := ins.(*ssa.Store)
					if !ok {
						continue
					}
					key, _, fresh, _, ok2 := p.addrEffect(scratch, st.Addr)
					if ok2 && strings.HasPrefix(key, "M:") {
						// element stores count unless the block was allocated by this activation
						if ia, isIA := st.Addr.(*ssa.IndexAddr); isIA {
							if _, isSl := ia.X.Type().Underlying().(*types.Slice); isSl {
								fresh = p.freshSlice(ia.X, 0)
							}
						}
						if !fresh && !seen[key] {
							seen[key] = true
							p.writers[key] = append(p.writers[key], f)
						}
						continue
					}
					if !ok2 {
						// whole-struct store through a pointer: every field
						if pt, isPtr := st.Addr.Type().Underlying().(*types.Pointer); isPtr {
							if stt, isStruct := pt.Elem().Underlying().(*types.Struct); isStruct {
								for i := 0; i < stt.NumFields(); i++ {
									kk := fieldKey(pt.Elem(), i)
									if !seen[kk] {
										seen[kk] = true
										p.writers[kk] = append(p.writers[kk], f)
									}
								}
							}
						}
						continue
					}
					if (strings.HasPrefix(key, "F:") || strings.HasPrefix(key, "G:")) && !seen[key] {
						seen[key] = true
						p.writers[key] = append(p.writers[key], f)
					}
					if strings.HasPrefix(key, "F:") && !fresh && !seen["NF:"+key] {
						// the object written was not allocated by this activation
						seen["NF:"+key] = true
						p.writers["NF:"+key] = append(p.writers["NF:"+key], f)
					}
				}
			}
		}
	}
	return p.writers[k]
}

// freshSlice: the slice's backing block was allocated by the activation that computes v (make, a callee whose
// contract says fresh, or append/re-slicing of such a slice).
func (p *Prog) freshSlice(v ssa.Value, depth int) bool {
	return p.freshSlice1(v, map[ssa.Value]bool{})
}

func localArrayAddr(v ssa.Value) bool {
	for i := 0; i < 6; i++ {
		switch x := v.(type) {
		case *ssa.Alloc:
			return true
		case *ssa.FieldAddr:
			v = x.X
		default:
			return false
		}
	}
	return false
}

func (p *Prog) freshSlice1(v ssa.Value, seen map[ssa.Value]bool) bool {
	if seen[v] {
		return true // a cycle through phi nodes adds no other origin
	}
	seen[v] = true
	switch x := v.(type) {
	case *ssa.MakeSlice:
		return true
	case *ssa.Slice:
		if _, isSl := x.X.Type().Underlying().(*types.Slice); isSl {
			return p.freshSlice1(x.X, seen)
		}
		return localArrayAddr(x.X) // slice of (a field of) a local array variable
	case *ssa.Call:
		if b, ok := x.Call.Value.(*ssa.Builtin); ok && b.Name() == "append" {
			return p.freshSlice1(x.Call.Args[0], seen)
		}
		if f := staticCallee(&x.Call); f != nil {
			if c := p.contracts.get(funcKey(f)); c != nil && c.Fresh {
				return true
			}
		}
	case *ssa.Phi:
		for _, e := range x.Edges {
			if !p.freshSlice1(e, seen) {
				return false
			}
		}
		return true
	case *ssa.Const:
		return x.Value == nil // nil slice: append allocates
	case *ssa.UnOp:
		// load of a slice-typed field of an object allocated by this activation, every store to which (in this
		// function, through that object) stores a fresh slice
		fa, ok := x.X.(*ssa.FieldAddr)
		if !ok || x.Op != token.MUL {
			return false
		}
		base, isAlloc := fa.X.(*ssa.Alloc)
		if !isAlloc || base.Referrers() == nil {
			return false
		}
		before := func(a, b ssa.Instruction) bool { // a is executed before b on every path reaching b
			if a.Block() == b.Block() {
				for _, ins := range a.Block().Instrs {
					if ins == a {
						return true
					}
					if ins == b {
						return false
					}
				}
			}
			return a.Block().Dominates(b.Block())
		}
		var fieldStores, wholeStores []*ssa.Store
		for _, r := range *base.Referrers() {
			switch y := r.(type) {
			case *ssa.FieldAddr:
				if y.Field != fa.Field || y.Referrers() == nil {
					continue
				}
				for _, r2 := range *y.Referrers() {
					if st, isStore := r2.(*ssa.Store); isStore && st.Addr == ssa.Value(y) {
						if !p.freshSlice1(st.Val, seen) {
							return false
						}
						fieldStores = append(fieldStores, st)
					}
				}
			case *ssa.Store:
				if y.Addr == ssa.Value(base) {
					wholeStores = append(wholeStores, y) // copy of another object: its slices are shared until reassigned
				}
			}
		}
		if len(wholeStores) == 0 {
			return true // zero-initialised (nil) or assigned fresh slices only
		}
		for _, fs := range fieldStores {
			if !before(fs, x) {
				continue
			}
			ok := true
			for _, w := range wholeStores {
				if !before(w, fs) {
					ok = false
				}
			}
			if ok {
				return true
			}
		}
		return false
	}
	return false
}

// memWritesOfCall: memory keys whose pre-existing blocks the call instruction itself may write (append into spare
// capacity, copy, external callees receiving slices).
func (p *Prog) memWritesOfCall(so *Sorts, cc *ssa.CallCommon) []string {
	memKeyOf := func(et types.Type) string {
		es := so.sortOf(et)
		return regKeyS(so, "M:"+es, arrSort(sInt, arrSort(sInt, es)))
	}
	var out []string
	if b, ok := cc.Value.(*ssa.Builtin); ok {
		switch b.Name() {
		case "append", "copy":
			if st, isSl := cc.Args[0].Type().Underlying().(*types.Slice); isSl && !p.freshSlice(cc.Args[0], 0) {
				out = append(out, memKeyOf(st.Elem()))
			}
		}
		return out
	}
	f := staticCallee(cc)
	if f == nil || len(f.Blocks) > 0 || p.externPure(f) {
		return nil // repo functions are visited themselves; dynamic calls are handled as "anything"
	}
	for _, a := range cc.Args {
		switch t := a.Type().Underlying().(type) {
		case *types.Slice:
			if !p.freshSlice(a, 0) {
				out = append(out, memKeyOf(t.Elem()))
			}
		case *types.Pointer:
			if at, isArr := t.Elem().Underlying().(*types.Array); isArr {
				out = append(out, memKeyOf(at.Elem()))
			}
		}
	}
	return out
}

// reaches: w is reachable from f through static calls, closures created, and interface dispatch to repo methods.
// Functions whose contract lists their write effects explicitly (a modifies clause without "*"/"heap") are not
// looked into: what they write is what the contract says (checked by their frame obligations, or trusted and
// reported when the contract says trustframe / assumed).
func (p *Prog) reaches(f, w *ssa.Function) bool {
	return p.auditReach(f)[w]
}

func (p *Prog) auditReach(f *ssa.Function) map[*ssa.Function]bool {
	if p.reachCache == nil {
		p.reachCache = map[*ssa.Function]map[*ssa.Function]bool{}
	}
	if r, ok := p.reachCache[f]; ok {
		return r
	}
	seen := map[*ssa.Function]bool{}
	var work []*ssa.Function
	push := func(g *ssa.Function) {
		if g != nil && !seen[g] {
			seen[g] = true
			work = append(work, g)
		}
	}
	push(f)
	for len(work) > 0 {
		g := work[len(work)-1]
		work = work[:len(work)-1]
		if g != f && p.explicitFrame(g) {
			continue
		}
		for _, b := range g.Blocks {
			for _, ins := range b.Instrs {
				for _, op := range ins.Operands(nil) {
					if *op == nil {
						continue
					}
					switch v := (*op).(type) {
					case *ssa.Function:
						push(v)
					case *ssa.MakeClosure:
						push(v.Fn.(*ssa.Function))
					}
				}
				if ci, ok := ins.(ssa.CallInstruction); ok && ci.Common().IsInvoke() {
					for _, t := range p.invokeTargets(ci.Common()) {
						push(t)
					}
				}
			}
		}
	}
	p.reachCache[f] = seen
	return seen
}

// explicitFrame: the function's contract enumerates what it writes.
func (p *Prog) explicitFrame(g *ssa.Function) bool {
	c := p.contracts.get(funcKey(g))
	if c == nil || !c.HasMod {
		return false
	}
	for _, m := range c.Modifies {
		if m == "*" || m == "heap" || m == "callbacks" {
			return false
		}
	}
	return true
}

// declaredWriter: some function with an explicit frame reachable from f lists heap key k in its modifies clause.
func (p *Prog) declaredWriter(so *Sorts, f *ssa.Function, k string) bool {
	for g := range p.auditReach(f) {
		if g == f || !p.explicitFrame(g) {
			continue
		}
		c := p.contracts.get(funcKey(g))
		for _, e := range p.contractEffects(so, g, c) {
			if e.key == k {
				return true
			}
		}
	}
	return false
}
