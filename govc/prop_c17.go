package main

// C17: restricted IO confines file access.  Beyond the contract on sanitizeFileName this adds
//  - a zero-annotation sweep: every function of the grol-program-reachable packages that contains a call to a
//    file-system / process / network sink is verified (synthesised empty contract) so that the sink's
//    @C17 precondition (assumed contract in contracts/stdlib.contracts) becomes an obligation at the call site;
//  - registration audits (calls-only / writes-only clauses decided on SSA).

import (
	"fmt"
	"strings"

	"golang.org/x/tools/go/ssa"
)

var sinkPkgs = map[string]bool{"os/exec": true, "net": true, "net/http": true, "io/ioutil": true, "syscall": true, "os/signal": false}

var osSinks = map[string]bool{"Create": true, "Open": true, "OpenFile": true, "ReadFile": true, "WriteFile": true, "Remove": true, "RemoveAll": true,
	"Rename": true, "Mkdir": true, "MkdirAll": true, "CreateTemp": true, "MkdirTemp": true, "Chdir": true, "Truncate": true, "ReadDir": true,
	"Symlink": true, "Link": true, "Chmod": true, "Chown": true, "OpenInRoot": true, "StartProcess": true, "Setenv": false}

func isSink(f *ssa.Function) bool {
	path := calleePkgPath(f)
	if path == "os" {
		return f.Signature.Recv() == nil && osSinks[f.Name()]
	}
	if f.Name() == "init" {
		return false
	}
	if sinkPkgs[path] {
		// constructors of commands/connections; methods on already-created objects are covered by their creation
		return f.Signature.Recv() == nil
	}
	return false
}

// packages whose code can run as a consequence of evaluating grol program text
var programPkgs = []string{"extensions", "eval", "object", "ast", "parser", "lexer", "token", "trie"}

func init() { propExtras["C17"] = c17Extras }

func c17Extras(cc *CheckCtx) {
	p := cc.P
	funcs := p.allFuncs(programPkgs...)
	var extPkg *ssa.Package
	for _, sp := range p.prog.AllPackages() {
		if sp.Pkg.Path() == "grol.io/grol/extensions" {
			extPkg = sp
		}
	}
	if extPkg == nil {
		cc.audit("extensions-package", false, "package grol.io/grol/extensions not found", "")
		return
	}
	shell := extPkg.Func("createShellFunctions")
	initInternal := extPkg.Func("initInternal")
	// ---- registration: process execution exists only when unrestricted
	shellOnly := map[*ssa.Function]bool{}
	if shell == nil || initInternal == nil {
		cc.audit("shell-registration", false, "createShellFunctions/initInternal not found (renamed?): registration cannot be audited", "")
	} else {
		refs := p.refSites(p.allFuncs(), shell)
		ok := len(refs) > 0
		where := ""
		for _, r := range refs {
			where = p.posOf(r)
			if r.Parent() != initInternal {
				ok = false
				break
			}
			if !guardedBy(r.Block(), true, func(c ssa.Value) bool { return isFieldLoadOfParam(c, "UnrestrictedIOs") }) {
				ok = false
				break
			}
		}
		cc.audit("shell-registration", ok, "createShellFunctions is referenced only in initInternal, on the true branch of `if c.UnrestrictedIOs`", where)
		// functions reachable only through createShellFunctions: least fixpoint of
		// "every reference to f sits inside createShellFunctions, one of its closures, or a shell-only function"
		all := p.allFuncs()
		fromShell := p.reachableFrom([]*ssa.Function{shell})
		inTree := func(f *ssa.Function) bool {
			for x := f; x != nil; x = x.Parent() {
				if x == shell || shellOnly[x] {
					return true
				}
			}
			return false
		}
		shellOnly[shell] = true
		for changed := true; changed; {
			changed = false
			for f := range fromShell {
				if shellOnly[f] || !p.inRepo(f) {
					continue
				}
				if f.Parent() != nil {
					if inTree(f.Parent()) {
						shellOnly[f] = true
						changed = true
					}
					continue
				}
				refs := p.refSites(all, f)
				only := len(refs) > 0
				for _, r := range refs {
					if !inTree(r.Parent()) {
						only = false
						break
					}
				}
				if only {
					shellOnly[f] = true
					changed = true
				}
			}
		}
	}
	// ---- the two configuration globals are written only by initInternal, from the Config
	for _, g := range []struct{ global, field string }{{"unrestrictedIOs", "UnrestrictedIOs"}, {"emptyOnly", "LoadSaveEmptyOnly"}} {
		ws := p.writesToGlobal(p.allFuncs(), "/extensions", g.global)
		ok := len(ws) > 0
		where := ""
		for _, w := range ws {
			where = p.posOf(w)
			if w.Parent().Name() == "init" && w.Parent().Synthetic != "" {
				// package initialiser: only the constant false is acceptable
				if c, isC := w.Val.(*ssa.Const); isC && c.Value != nil && c.Value.String() == "false" {
					continue
				}
			}
			if w.Parent() != initInternal || !isFieldLoadOfParam(w.Val, g.field) {
				ok = false
			}
		}
		cc.audit("config-global."+g.global, ok, fmt.Sprintf("global %s is assigned only in initInternal and only from c.%s (%d store(s))", g.global, g.field, len(ws)), where)
	}
	// ---- initInternal is called only from Init, guarded by !initDone
	if initInternal != nil {
		refs := p.refSites(p.allFuncs(), initInternal)
		ok := len(refs) > 0
		where := ""
		for _, r := range refs {
			where = p.posOf(r)
			if r.Parent() != extPkg.Func("Init") || !guardedBy(r.Block(), false, func(c ssa.Value) bool { return isGlobalLoad(c, "initDone") }) {
				ok = false
			}
		}
		cc.audit("init-once", ok, "initInternal is called only from Init on the `!initDone` path", where)
	}
	// ---- save/load callbacks are registered only under HasSave / HasLoad
	for _, g := range []struct{ fn, field string }{{"saveFunc", "HasSave"}, {"loadFunc", "HasLoad"}} {
		f := extPkg.Func(g.fn)
		if f == nil {
			cc.audit("registration."+g.fn, false, g.fn+" not found (renamed?)", "")
			continue
		}
		refs := p.refSites(p.allFuncs(), f)
		ok := len(refs) > 0
		where := ""
		for _, r := range refs {
			where = p.posOf(r)
			if !guardedBy(r.Block(), true, func(c ssa.Value) bool { return isFieldLoadOfParam(c, g.field) }) {
				ok = false
			}
		}
		cc.audit("registration."+g.fn, ok, fmt.Sprintf("%s is referenced only on the true branch of `if c.%s` (%d reference(s))", g.fn, g.field, len(refs)), where)
	}
	// ---- sink sweep
	sites := p.callSites(funcs, isSink)
	holder := map[*ssa.Function][]callSite{}
	for _, s := range sites {
		holder[s.in] = append(holder[s.in], s)
	}
	var todo []*FnResult
	nShell := 0
	for _, f := range funcs {
		ss := holder[f]
		if len(ss) == 0 {
			continue
		}
		if shellOnly[f] || shellOnly[topFunc(f)] {
			nShell += len(ss)
			for _, s := range ss {
				cc.audit(fmt.Sprintf("sink-shell-only.%s.%s", f.Name(), s.callee.Name()), true,
					fmt.Sprintf("sink %s.%s in %s is reachable only through createShellFunctions (registered only when unrestricted)", calleePkgPath(s.callee), s.callee.Name(), funcKey(f)), p.posOf(s.instr))
			}
			continue
		}
		key := funcKey(f)
		c := p.contracts.get(key)
		if c != nil && hasProp(c.Props, "C17") {
			continue // verified by the main pass; its pre@sink obligations are already generated
		}
		// every sink needs an assumed contract with a @C17 precondition, otherwise the call is unguarded
		for _, s := range ss {
			sc := p.contracts.get(funcKey(s.callee))
			has := false
			if sc != nil {
				for _, r := range sc.Requires {
					if r.OnlyProp == "C17" {
						has = true
					}
				}
			}
			if !has {
				cc.audit("sink-contract."+funcKey(s.callee), false, "sink "+funcKey(s.callee)+" has no @C17 precondition in contracts/stdlib.contracts: its call sites cannot be checked", p.posOf(s.instr))
			}
		}
		syn := &Contract{Key: key, Props: []string{"C17"}, Loops: map[int]*LoopSpec{}, NoSafety: true, Arith: "int", Unroll: map[int]int{}, File: "synthesised", MayPanic: []string{"*"}}
		r := p.verifyFunction(f, syn)
		todo = append(todo, r)
		cc.Funcs = append(cc.Funcs, key+" (synthesised empty contract: sink sweep)")
	}
	solveAll(todo, cc.Timeout, 16)
	for _, r := range todo {
		if r.Unsupported != "" {
			cc.add(&Item{Name: r.Key + "/translate", Kind: "translate", Status: "unknown", Backend: "govc", Detail: "function containing a sink left the verifier's subset: " + r.Unsupported})
		}
		for _, o := range r.Q.obligs {
			if o.Kind != "pre" {
				continue
			}
			cc.add(&Item{Name: o.Name, Kind: o.Kind, Status: o.Status, Backend: o.Solver, Secs: o.Secs, Detail: o.Comment, Where: fmt.Sprintf("%s:%d", o.Pos.Filename, o.Pos.Line), Model: o.Model, Goal: o.Goal.S})
		}
	}
	cc.audit("sink-enumeration", true, fmt.Sprintf("%d sink call sites found in packages %s (%d of them shell-only); host-side packages repl, main, wasm are out of scope: their file accesses (auto-save, history, script file) are not actions of a grol program",
		len(sites), strings.Join(programPkgs, ","), nShell), "")
	cc.Assume = append(cc.Assume, "C17: the sink list (os.Create/Open/OpenFile/ReadFile/WriteFile/Remove/Rename/Mkdir*/CreateTemp/Chdir/Truncate/ReadDir/Symlink/Link, os/exec, net, net/http, io/ioutil, syscall package-level functions) is complete for file, process and network access",
		"C17: host packages (repl, main, wasm) are outside the property: the host's own auto-save/history/script-file accesses are not actions of a grol program",
		"C17: symlinks and other OS-level indirections for an accepted name are not modelled")
}
