package main

// Per-function verification driver: builds the obligations of one contracted function.

import (
	"fmt"
	"go/types"
	"os"
	"strings"

	"golang.org/x/tools/go/ssa"
)

type FnResult struct {
	Key         string
	Q           *Q
	Unsupported string
	Contract    *Contract
	Fn          *ssa.Function
}

func (p *Prog) verifyFunction(f *ssa.Function, c *Contract) (res *FnResult) {
	key := funcKey(f)
	q := newQ(p, key, c.Arith == "bv")
	q.props = c.Props
	q.curProp = p.curProp
	res = &FnResult{Key: key, Q: q, Contract: c, Fn: f}
	defer func() {
		if r := recover(); r != nil {
			switch e := r.(type) {
			case unsupportedErr:
				res.Unsupported = e.msg
			case specErr:
				res.Unsupported = "spec error: " + e.msg
			default:
				if os.Getenv("GOVC_PANIC") != "" {
					panic(r)
				}
				res.Unsupported = fmt.Sprintf("internal error in the verifier: %v", r)
			}
		}
	}()
	ex := newExec(q, f, nil)
	ex.contract = c
	ex.top = true
	ex.skipSafety = c.NoSafety
	if len(c.SafetyProps) > 0 && q.curProp != "" && !hasProp(c.SafetyProps, q.curProp) {
		ex.skipSafety = true
	}
	for g := range p.contracts.GhostNames {
		q.so.keySort["GH:"+g] = arrSort(sInt, sInt)
	}
	h0 := q.newHeap()
	a0 := q.heapGet(h0, allocKey)
	q.assume(lt(tInt(int64(len(p.globals)+64)), a0))
	ex.entryHeap = h0
	ex.entryReach = tTrue
	for _, prm := range f.Params {
		var v Term
		if q.so.sortOf(prm.Type()) == sIface {
			// explicit (tag, payload) constants: case splits on the dynamic type then simplify syntactically
			tg := q.fresh("p_"+prm.Name()+"_tag", sInt)
			pv := q.fresh("p_"+prm.Name()+"_val", sInt)
			q.assume(le(tInt(0), tg))
			v = mkIface(tg, pv)
			ex.typeFacts(v, prm.Type())
		} else {
			v = ex.havocVal("p_"+prm.Name(), prm.Type(), tTrue)
		}
		ex.params = append(ex.params, v)
		ex.vals[prm] = v
		if isPointerLike(prm.Type()) {
			q.assume(lt(v, a0))
		}
		if _, isSl := prm.Type().Underlying().(*types.Slice); isSl {
			q.assume(validBlock(slBase(v), a0))
		}
		q.modelVars = append(q.modelVars, v.S)
	}
	for _, fv := range f.FreeVars {
		v := ex.havocVal("fv_"+fv.Name(), fv.Type(), tTrue)
		ex.freeVars = append(ex.freeVars, v)
	}
	// package-level invariants of never-rewritten globals hold in every state
	inGlobals := false
	q.assumeGlobals = func(h *Heap) {
		if inGlobals || q.pureDepth > 0 {
			return
		}
		inGlobals = true
		defer func() { inGlobals = false }()
		for _, g := range p.contracts.Globals {
			var sp *ssa.Package
			for _, x := range p.prog.AllPackages() {
				if x.Pkg.Path() == g.Pkg {
					sp = x
				}
			}
			if sp == nil {
				continue
			}
			sc := &SpecCtx{ex: ex, pkg: sp, vars: map[string]SV{}, heap: h, old: h}
			q.assume(sc.evalBool(g.Clause))
		}
	}
	q.assumeGlobals(h0)
	for _, u := range c.Uses {
		ax := p.contracts.Axioms[u]
		if ax == nil && f.Pkg != nil {
			ax = p.contracts.Axioms[f.Pkg.Pkg.Path()+"."+u]
		}
		if ax == nil {
			for k, a := range p.contracts.Axioms {
				if strings.HasSuffix(k, "."+u) {
					ax = a
				}
			}
		}
		if ax == nil {
			panic(specErr{"unknown axiom " + u})
		}
		var sp *ssa.Package
		for _, x := range p.prog.AllPackages() {
			if x.Pkg.Path() == ax.Pkg {
				sp = x
			}
		}
		sc := &SpecCtx{ex: ex, pkg: sp, vars: map[string]SV{}, heap: h0, old: h0}
		q.assume(sc.evalBool(ax.Clause))
		q.note("ASSUMED AXIOM %s: %s", u, ax.Clause.Text)
	}
	pre := ex.specCtx(ex.paramVars(), h0)
	for _, r := range c.Requires {
		// a precondition scoped to other properties is not established by the callers verified for this one, so it
		// is not assumed here either; "@assumed" preconditions are assumed and never checked (reported)
		if r.OnlyProp == "assumed" {
			q.note("ASSUMED PRECONDITION of %s: %s", key, r.Text)
		} else if !q.propActive(r.OnlyProp) {
			continue
		}
		q.assume(pre.evalBool(r))
	}
	nPre := len(q.lines)
	ex.run()
	// cover: the precondition is satisfiable and some return is reachable
	var retReach []Term
	for _, r := range ex.rets {
		retReach = append(retReach, r.reach)
	}
	if len(ex.rets) > 0 {
		o := q.oblige(key+"/cover.return", "cover", or(retReach...), tFalse, p.fset.Position(f.Pos()), "vacuity guard: precondition satisfiable and a return reachable")
		if o != nil && o.Status == "" {
			o.Expect = "sat"
		}
	} else {
		o := &Oblig{Name: key + "/cover.pre", Fn: key, Kind: "cover", Guard: tTrue, Goal: tFalse, UpTo: nPre, Pos: p.fset.Position(f.Pos()), Props: c.Props, Expect: "sat"}
		q.obligs = append(q.obligs, o)
	}
	if len(ex.rets) == 0 {
		p.exceptionalPosts(ex, c, key)
		return res
	}
	defer p.exceptionalPosts(ex, c, key)
	// merge return sites
	var heaps []*Heap
	for _, r := range ex.rets {
		heaps = append(heaps, r.heap)
	}
	anyRet := q.def("ret_any", or(retReach...))
	hf := q.mergeHeaps(retReach, heaps)
	vars := ex.paramVars()
	nres := f.Signature.Results().Len()
	for i := 0; i < nres; i++ {
		n := len(ex.rets)
		t := ex.rets[n-1].vals[i]
		for k := n - 2; k >= 0; k-- {
			t = ite(ex.rets[k].reach, ex.rets[k].vals[i], t)
		}
		t = q.def("result", t)
		rt := f.Signature.Results().At(i).Type()
		name := "result"
		if nres > 1 {
			name = fmt.Sprintf("result%d", i)
		} else {
			vars["result0"] = SV{t, rt}
		}
		vars[name] = SV{t, rt}
		if rn := f.Signature.Results().At(i).Name(); rn != "" && rn != "_" {
			if _, clash := vars[rn]; !clash {
				vars[rn] = SV{t, rt}
			}
		}
	}
	for _, w := range c.Witnesses {
		if v, ok := ex.witness[w.Name]; ok {
			vars[w.Name] = v
			vars[w.Name+"$captured"] = ex.witness[w.Name+"$captured"]
		} else {
			wt := p.witnessType(f, w)
			vars[w.Name] = SV{ex.havocVal("wit_"+w.Name, wt, tTrue), wt}
			vars[w.Name+"$captured"] = SV{tFalse, types.Typ[types.Bool]}
			q.note("witness %s was never captured (no call %s#%d reached)", w.Name, w.Callee, w.N)
		}
	}
	post := ex.specCtx(vars, hf)
	var activeEnsures []*Clause
	for _, e := range c.Ensures {
		if q.propActive(e.OnlyProp) {
			activeEnsures = append(activeEnsures, e)
		}
	}
	cOrig := c
	cc2 := *c
	cc2.Ensures = activeEnsures
	c = &cc2
	_ = cOrig
	if len(c.Splits) > 0 {
		// case analysis: every ensures clause is proved separately for each combination of alternatives
		pre0 := ex.specCtx(ex.paramVars(), h0)
		type combo struct {
			name string
			cond Term
		}
		combos := []combo{{"", tTrue}}
		for si, alts := range c.Splits {
			var terms []Term
			for _, a := range alts {
				terms = append(terms, pre0.evalBool(a))
			}
			q.oblige(fmt.Sprintf("%s/split.cover#%d", key, si+1), "split", tTrue, or(terms...), p.fset.Position(f.Pos()), "the case split is exhaustive under the precondition")
			var next []combo
			for _, cb := range combos {
				for ai, t := range terms {
					n := cb.name
					if n != "" {
						n += ","
					}
					next = append(next, combo{n + fmt.Sprint(ai+1), and(cb.cond, t)})
				}
			}
			combos = next
		}
		for _, e := range c.Ensures {
			g := post.evalBool(e)
			for _, cb := range combos {
				q.oblige(fmt.Sprintf("%s/post.%s[%s]", key, e.Label, cb.name), "post", and(anyRet, cb.cond), g, p.fset.Position(f.Pos()), "postcondition (case "+cb.name+"): "+e.Text)
			}
		}
	} else if len(ex.rets) > 1 && len(ex.rets) <= 48 {
		// one obligation per return site (ordinal in block order): sharper diagnostics
		for k, r := range ex.rets {
			rvars := map[string]SV{}
			for n, v := range vars {
				rvars[n] = v
			}
			for i := 0; i < nres; i++ {
				rt := f.Signature.Results().At(i).Type()
				if nres > 1 {
					rvars[fmt.Sprintf("result%d", i)] = SV{r.vals[i], rt}
				} else {
					rvars["result"] = SV{r.vals[i], rt}
					rvars["result0"] = SV{r.vals[i], rt}
				}
				if rn := f.Signature.Results().At(i).Name(); rn != "" && rn != "_" {
					if _, isParam := ex.paramVars()[rn]; !isParam {
						rvars[rn] = SV{r.vals[i], rt}
					}
				}
			}
			rp := ex.specCtx(rvars, r.heap)
			for _, e := range c.Ensures {
				g := rp.evalBool(e)
				q.oblige(fmt.Sprintf("%s/post.%s@ret%d", key, e.Label, k+1), "post", r.reach, g, r.pos, "postcondition: "+e.Text)
			}
		}
	} else {
		for _, e := range c.Ensures {
			g := post.evalBool(e)
			q.oblige(key+"/post."+e.Label, "post", anyRet, g, p.fset.Position(f.Pos()), "postcondition: "+e.Text)
		}
	}
	if c.Fresh && nres > 0 {
		r0 := vars["result0"].t
		if r0.Sort == sSlice {
			r0 = slBase(r0)
		}
		q.oblige(key+"/post.fresh", "post", anyRet, and(le(a0, r0), lt(r0, q.heapGet(hf, allocKey))), p.fset.Position(f.Pos()), "result is freshly allocated")
	}
	// frame
	if c.HasMod && !c.TrustFrame {
		ex.frameObligations(c, h0, hf, anyRet, a0)
	}
	if c.TrustFrame {
		q.note("ASSUMED FRAME: %s modifies only what its contract lists (not checked: logging / Inspect calls are treated as having no effect on interpreter state)", key)
	}
	return res
}

func (ex *Exec) frameObligations(c *Contract, h0, hf *Heap, guard, a0 Term) {
	q := ex.q
	f := ex.fn
	pos := ex.P.fset.Position(f.Pos())
	effs := ex.P.contractEffects(q.so, f, c)
	for _, e := range effs {
		if e.all {
			return
		}
	}
	if hf.gen != h0.gen {
		q.oblige(q.fnName+"/frame.all", "frame", guard, tFalse, pos, "heap was havoced wholesale (call with unknown effects); frame cannot be established")
		return
	}
	allowed := map[string][]Term{}
	wholeOK := map[string]bool{}
	for _, e := range effs {
		if e.param >= 0 {
			bt := ex.params[e.param]
			if e.arrField > 0 {
				bt = arrBase(bt, e.arrField-1)
			}
			if e.viaKey != "" {
				bt = sel(q.heapGet(h0, e.viaKey), bt)
			}
			if bt.Sort == sSlice {
				bt = slBase(bt)
			}
			allowed[e.key] = append(allowed[e.key], bt)
		} else {
			wholeOK[e.key] = true
		}
	}
	for _, key := range sortedKeys(hf.m) {
		if key == allocKey || wholeOK[key] {
			continue
		}
		fin := hf.m[key]
		ini := q.heapGet(h0, key)
		if fin.S == ini.S {
			continue
		}
		name := q.fnName + "/frame." + strings.TrimPrefix(strings.TrimPrefix(key, "F:"), "grol.io/grol/")
		if strings.HasPrefix(key, "G:") {
			q.oblige(name, "frame", guard, eq(fin, ini), pos, "global not in modifies clause is unchanged: "+key)
			continue
		}
		conds := []string{"(< 0 p!f)", "(< p!f " + a0.S + ")"}
		if strings.HasPrefix(key, "M:") {
			// memory blocks: slices/arrays allocated before (0 < p < a0) and array fields of objects allocated before
			// (arrBase(ref, f) = -(f+1) - 64*ref with 0 < ref < a0)
			conds = []string{"(< p!f " + a0.S + ")", "(> p!f (- (* 64 " + a0.S + ")))"}
		}
		for _, b := range allowed[key] {
			conds = append(conds, "(not (= p!f "+b.S+"))")
		}
		idxSort := idxSortOf(fin.Sort)
		goal := Term{fmt.Sprintf("(forall ((p!f %s)) (=> (and %s) (= (select %s p!f) (select %s p!f))))", idxSort, strings.Join(conds, " "), fin.S, ini.S), sBool}
		q.oblige(name, "frame", guard, goal, pos, "locations not in modifies clause are unchanged: "+key)
	}
}

// exceptionalPosts emits, for every recorded exceptional exit of the function, the obligations that its
// "onpanic ensures" clauses hold after the deferred calls registered on that path have run.
func (p *Prog) exceptionalPosts(ex *Exec, c *Contract, key string) {
	if len(c.OnPanic) == 0 || len(ex.excExits) == 0 {
		return
	}
	q := ex.q
	ex.inExc = true
	defer func() { ex.inExc = false }()
	exits := ex.excExits
	savedPrefix := ex.prefix
	for i, xe := range exits {
		h := xe.heap.clone()
		if len(xe.defers) > 0 {
			ex.prefix = fmt.Sprintf("%spanic@x%d/", savedPrefix, i+1)
			ex.runDeferred(xe.defers, xe.block, h, xe.reach)
			ex.prefix = savedPrefix
		}
		sc := ex.specCtx(ex.paramVars(), h)
		for _, e := range c.OnPanic {
			if !q.propActive(e.OnlyProp) {
				continue
			}
			q.oblige(fmt.Sprintf("%s/post.panic.%s@x%d", key, e.Label, i+1), "post.panic", xe.reach, sc.evalBool(e), xe.pos,
				"exceptional postcondition ("+xe.what+"): "+e.Text)
		}
	}
}
