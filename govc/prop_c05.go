package main

// C05: integer registers are unobservable.
// Deductive part (contracts in object/ and eval/verif_contracts.go, tag C05): the register file discipline that the
// equivalence depends on — MakeRegister/ReleaseRegister never panic under their contracts (capacity, LIFO), a counted
// loop leaves numReg as it found it on every normal-return path (break, continue, return, error, rejected register),
// function-parameter registers are allocated only while the fresh environment has room, and values that escape
// (call arguments) are copied out of the register file (CopyRegister, evalExpressions).
// The observational part (same output/result/errors for every program) is a relation between two runs of the whole
// interpreter over the rewritten body: outside the reach of per-function contracts; a bounded differential stand-in
// is run and labelled bounded.

func init() { propExtras["C05"] = c05Extras }

func c05Extras(cc *CheckCtx) {
	cc.runBounded(BoundedSpec{Name: "registers-onoff", PkgDir: "repl", File: "c05_reg_test.go", Test: "TestVerifBoundedRegisters", TimeoutS: 900,
		Contract: "generated programs produce identical output, result and errors with eval.State.NoReg false and true"})
	cc.Assume = append(cc.Assume,
		"C05: setupRegister's frame (modifies env.numReg, env.registers, token.interning only) is trusted: the ast.Modify callback ModifyRegister only updates its own Register value",
		"C05: (*Register).Ptr returns an interior pointer (outside govc's subset): assumed pure and non-nil",
		"C05: exits by Go panic are covered by the deferred release in evalForInteger but panic paths are not modelled by govc (normal-return paths only)",
		"C05: observational equivalence of the rewritten body with the original (ModifyRegister/ast.Modify soundness) is not proved: bounded differential stand-in only")
}
