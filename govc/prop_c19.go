package main

// C19: constants cannot be changed by any path.  Deductive: object.Constant (definition) and
// (*Environment).CreateOrSet (a constant bound to a different value is refused).  Structural clauses decided on SSA:
//  - writes-only: the binding stores (Environment.store maps) are written only by the environment's own setters;
//  - every write path from the evaluator goes through the checking setter, or uses a name that is provably not a
//    constant;
//  - the result of the checking setter is not discarded (a refused assignment must surface).

import (
	"fmt"
	"go/types"
	"sort"
	"strings"

	"golang.org/x/tools/go/ssa"
)

func init() { propExtras["C19"] = c19Extras }

func isEnvStoreMap(t types.Type) bool {
	mt, ok := t.Underlying().(*types.Map)
	if !ok {
		return false
	}
	return mt.Key().String() == "string" && strings.HasSuffix(mt.Elem().String(), "object.Object")
}

// goConstant mirrors object.Constant (definition proved in contract Constant/post.def) for literal names.
func goConstant(name string) bool {
	for i := 0; i < len(name); i++ {
		v := name[i]
		if i != 0 && (v == '_' || (v >= '0' && v <= '9')) {
			continue
		}
		if v < 'A' || v > 'Z' {
			return false
		}
	}
	return true
}

func c19Extras(cc *CheckCtx) {
	p := cc.P
	all := p.allFuncs()
	// 1. writers of Environment.store
	allowedWriters := map[string]bool{
		"grol.io/grol/object.(*Environment).create": true, "grol.io/grol/object.(*Environment).update": true,
		"grol.io/grol/object.(*Environment).makeRef": true, "grol.io/grol/object.(*Environment).SetNoChecks": true,
		"grol.io/grol/object.(*Environment).Delete": true,
	}
	var bad []string
	nWrites := 0
	for _, f := range all {
		for _, b := range f.Blocks {
			for _, ins := range b.Instrs {
				isWrite := false
				switch x := ins.(type) {
				case *ssa.MapUpdate:
					if ua, ok := x.Map.(*ssa.UnOp); ok {
						if fa, ok := ua.X.(*ssa.FieldAddr); ok {
							st, _ := derefStruct(fa.X.Type())
							if strings.HasSuffix(st.String(), "object.Environment") && fieldName(st, fa.Field) == "store" {
								isWrite = true
							}
						}
					}
				case *ssa.Call:
					if bi, ok := x.Call.Value.(*ssa.Builtin); ok && bi.Name() == "delete" && isEnvStoreMap(x.Call.Args[0].Type()) {
						if ua, ok := x.Call.Args[0].(*ssa.UnOp); ok {
							if fa, ok := ua.X.(*ssa.FieldAddr); ok {
								st, _ := derefStruct(fa.X.Type())
								if strings.HasSuffix(st.String(), "object.Environment") {
									isWrite = true
								}
							}
						}
					}
				}
				if isWrite {
					nWrites++
					if !allowedWriters[funcKey(f)] {
						bad = append(bad, funcKey(f)+" at "+p.posOf(ins))
					}
				}
			}
		}
	}
	cc.audit("store-writers", len(bad) == 0 && nWrites > 0, fmt.Sprintf("the %d writes to Environment.store are all inside create/update/makeRef/SetNoChecks/Delete %s", nWrites, strings.Join(bad, "; ")), "")
	// 2. callers of the unchecked setters
	unchecked := map[string]bool{"SetNoChecks": true, "create": true, "update": true}
	okCallers := map[string]bool{"grol.io/grol/object.(*Environment).CreateOrSet": true, "grol.io/grol/object.(*Environment).SetNoChecks": true}
	sites := p.callSites(all, func(c *ssa.Function) bool {
		return unchecked[c.Name()] && strings.HasSuffix(funcKeyRecv(c), "object.Environment")
	})
	for _, s := range sites {
		if okCallers[funcKey(s.in)] {
			continue
		}
		args := s.instr.Common().Args
		name, isConst := "", false
		if len(args) >= 2 {
			name, isConst = constString(args[1])
		}
		ok := isConst && !goConstant(name)
		cc.audit(fmt.Sprintf("unchecked-setter.%s.%s", s.in.Name(), strings.Trim(name, ".")), ok,
			fmt.Sprintf("%s calls %s with the literal name %q, which is not a constant name", funcKey(s.in), s.callee.Name(), name), p.posOf(s.instr))
	}
	// 3. results of the checking setter must be used
	checked := p.callSites(all, func(c *ssa.Function) bool {
		return (c.Name() == "Set" || c.Name() == "CreateOrSet") && strings.HasSuffix(funcKeyRecv(c), "object.Environment")
	})
	var names []string
	for _, s := range checked {
		v, isVal := s.instr.(ssa.Value)
		used := false
		if isVal && v.Referrers() != nil {
			for _, r := range *v.Referrers() {
				if _, dbg := r.(*ssa.DebugRef); !dbg {
					used = true
				}
			}
		}
		if funcKey(s.in) == "grol.io/grol/object.(*Environment).Set" {
			continue
		}
		if s.in.Name() == "addMacro" || s.in.Name() == "extendMacroEnv" {
			continue // macro stores (macro definitions / quoted macro parameters), not program bindings
		}
		ord := 0
		for _, n := range names {
			if n == s.in.Name() {
				ord++
			}
		}
		names = append(names, s.in.Name())
		cc.audit(fmt.Sprintf("result-used.%s#%d", s.in.Name(), ord+1), used,
			fmt.Sprintf("the Error possibly returned by %s in %s is inspected (a refused assignment to a constant must surface)", s.callee.Name(), funcKey(s.in)), p.posOf(s.instr))
	}
	sort.Strings(names)
	cc.runBounded(BoundedSpec{Name: "constant-mutation", PkgDir: "repl", File: "c19_const_test.go", Test: "TestVerifBoundedConstants", TimeoutS: 120,
		Contract: "after binding an upper-case name, every kind of mutation attempt errors or leaves it unchanged (registers on and off)"})
	cc.Assume = append(cc.Assume,
		"C19: the macro environments written by eval.addMacro / eval.extendMacroEnv hold macro definitions and quoted parameters, not program bindings: outside the write audit",
		"C19: 'evaluate to a different value' for arbitrary programs beyond the write audit relies on the scoping contracts (C01 residual)")
}

func funcKeyRecv(f *ssa.Function) string {
	if r := f.Signature.Recv(); r != nil {
		t := r.Type()
		if pt, ok := t.(*types.Pointer); ok {
			t = pt.Elem()
		}
		return t.String()
	}
	return ""
}
