package repl

// Bounded stand-in for the observational part of C05, injected by govc with `go test -overlay`:
// generated programs are evaluated in a fresh interpreter with the integer-register optimisation on and off
// (eval.State.NoReg, i.e. grol -no-register) and output, result and errors must be identical.
//
// Two classes of programs:
//   clean    programs built from: functions with 0..12 parameters of mixed types, parameter mutation (=, ++, --) with
//            integer values, counted loops nested up to depth 10 with fresh loop-variable names, every way of leaving a
//            loop (normal end, break, continue, return, error), closures over parameters, long sequences of
//            top-level loops.  Any difference is a failure.
//   witness  one fixed program per known finding (see /verif/known_findings.txt); a difference is reported as
//            BOUNDED-KNOWN <id>, no line when the two runs agree.

import (
	"context"
	"fmt"
	"math/rand"
	"os"
	"strings"
	"testing"
	"time"
)

func c05Run(src string, noReg bool, deadline time.Duration) string {
	// every generated program terminates within milliseconds; the deadline only cuts runaway loops of a broken tree
	o := Options{All: true, ShowEval: true, NoColor: true, Compact: true, NoReg: noReg, AutoLoad: false, AutoSave: false, MaxDuration: deadline}
	res, errs, _ := EvalStringWithOption(context.Background(), o, src)
	all := res + "\n--errs--\n" + strings.Join(errs, "\n")
	if strings.Contains(all, "deadline exceeded") {
		return "TIMEOUT"
	}
	return all
}

func c05Cut(s string) string {
	if len(s) > 400 {
		return s[:200] + " ... " + s[len(s)-200:]
	}
	return s
}

type c05gen struct {
	r     *rand.Rand
	nvar  int
	funcs []string // names of generated functions and their arity
	arity map[string]int
}

func (g *c05gen) fresh(prefix string) string {
	g.nvar++
	return fmt.Sprintf("%s%d", prefix, g.nvar)
}

// intExpr builds an integer-valued expression over the given integer names.
func (g *c05gen) intExpr(names []string, depth int) string {
	if depth <= 0 || g.r.Intn(3) == 0 {
		if len(names) > 0 && g.r.Intn(4) != 0 {
			return names[g.r.Intn(len(names))]
		}
		return fmt.Sprint(g.r.Intn(7))
	}
	a, b := g.intExpr(names, depth-1), g.intExpr(names, depth-1)
	switch g.r.Intn(6) {
	case 0:
		return "(" + a + " + " + b + ")"
	case 1:
		return "(" + a + " - " + b + ")"
	case 2:
		return "(" + a + " * " + b + ")"
	case 3:
		return "(" + a + " % 5)"
	case 4:
		return "(-" + a + ")"
	default:
		return "(" + a + " + 1)"
	}
}

// loop emits a counted loop nest of the given depth; ints are the integer names in scope; inFunc allows return.
func (g *c05gen) loop(ints []string, depth int, inFunc bool, acc string) string {
	v := g.fresh("i")
	lo, hi := g.r.Intn(3), 1+g.r.Intn(4)
	if depth > 3 {
		hi = 1 + g.r.Intn(2) // deep nests: at most 2 iterations per level (2^10 bodies), so every program runs in milliseconds
	}
	hdr := ""
	switch g.r.Intn(3) {
	case 0:
		hdr = fmt.Sprintf("for %s = %d:%d", v, lo, lo+hi)
	case 1:
		hdr = fmt.Sprintf("for %s = %d", v, hi)
	default:
		hdr = fmt.Sprintf("for %s = %s:%s", v, g.intExpr(nil, 1), "("+g.intExpr(nil, 1)+" + 3)")
		if depth > 3 {
			hdr = fmt.Sprintf("for %s = %d:%d", v, lo, lo+hi)
		}
	}
	in := append(append([]string{}, ints...), v)
	var body []string
	// an exit of some kind, guarded by a comparison on the loop variable
	switch g.r.Intn(8) {
	case 0:
		body = append(body, fmt.Sprintf("if %s == %d { break }", v, lo+g.r.Intn(3)))
	case 1:
		body = append(body, fmt.Sprintf("if %s == %d { continue }", v, lo+g.r.Intn(3)))
	case 2:
		if inFunc {
			body = append(body, fmt.Sprintf("if %s == %d { return %s }", v, lo+g.r.Intn(3), g.intExpr(in, 1)))
		}
	case 3:
		body = append(body, fmt.Sprintf("if %s == %d { %s = %s + 1 / (%s - %s) }", v, lo+1+g.r.Intn(2), acc, acc, v, v)) // division by zero: error exit
	case 4:
		body = append(body, fmt.Sprintf("if %s > %s { break }", g.intExpr(in, 1), g.intExpr(in, 1)))
	}
	body = append(body, fmt.Sprintf("%s = %s + %s", acc, acc, g.intExpr(in, 2)))
	if g.r.Intn(5) == 0 {
		// assignment to the loop variable inside the body (the variable is never read after the loop)
		body = append(body, fmt.Sprintf("if %s == %d { %s = %s }", v, lo+g.r.Intn(3), v, g.intExpr(in, 1)))
		body = append(body, fmt.Sprintf("%s = %s + %s", acc, acc, v))
	}
	if g.r.Intn(3) == 0 {
		body = append(body, fmt.Sprintf("print(%s, \" \")", g.intExpr(in, 1)))
	}
	if g.r.Intn(4) == 0 {
		// the loop variable escapes into a binding, a map and an array that are read after later loops reused the register
		body = append(body, fmt.Sprintf("esc = %s", v), fmt.Sprintf("escm[%s] = %s", v, v), fmt.Sprintf("escl = {%s: [%s]}", v, v))
	}
	if len(g.funcs) > 0 && g.r.Intn(3) == 0 {
		body = append(body, fmt.Sprintf("%s = %s + %s", acc, acc, g.call(in)))
	}
	if depth > 1 {
		body = append(body, g.loop(in, depth-1, inFunc, acc))
	}
	if g.r.Intn(4) == 0 {
		body = append(body, fmt.Sprintf("if %s %% 2 == 0 { continue }", v))
		body = append(body, fmt.Sprintf("%s = %s - 1", acc, acc))
	}
	return hdr + " {\n" + strings.Join(body, "\n") + "\n}"
}

var c05argKinds = []string{"int", "int", "int", "float", "str", "arr", "bool", "map"}

func (g *c05gen) arg(kind string, ints []string) string {
	switch kind {
	case "int":
		return g.intExpr(ints, 1)
	case "float":
		return fmt.Sprintf("%d.5", g.r.Intn(9))
	case "str":
		return fmt.Sprintf("%q", string(rune('a'+g.r.Intn(26))))
	case "arr":
		return fmt.Sprintf("[%d, %d]", g.r.Intn(9), g.r.Intn(9))
	case "bool":
		return []string{"true", "false"}[g.r.Intn(2)]
	default:
		return fmt.Sprintf("{%d: %d}", g.r.Intn(9), g.r.Intn(9))
	}
}

func (g *c05gen) call(ints []string) string {
	f := g.funcs[g.r.Intn(len(g.funcs))]
	var args []string
	for i := 0; i < g.arity[f]; i++ {
		// the generated function decides its own parameter kinds; integers are always acceptable to it
		args = append(args, g.arg("int", ints))
	}
	return f + "(" + strings.Join(args, ", ") + ")"
}

// function emits a function with nparams parameters; integer parameters are mutated and used in loops.
func (g *c05gen) function(nparams int) (string, string) {
	name := g.fresh("f")
	var params, ints []string
	for i := 0; i < nparams; i++ {
		p := g.fresh("p")
		params = append(params, p)
		ints = append(ints, p) // callers pass integers for every parameter (see call); mixed-type calls are emitted separately
	}
	acc := g.fresh("acc")
	var body []string
	body = append(body, acc+" = 0")
	for _, p := range ints {
		switch g.r.Intn(6) {
		case 0:
			body = append(body, p+"++")
		case 1:
			body = append(body, p+"--")
		case 2:
			body = append(body, fmt.Sprintf("%s = %s", p, g.intExpr(ints, 2)))
		case 3:
			body = append(body, fmt.Sprintf("%s = %s + %s", acc, acc, p))
		}
	}
	if g.r.Intn(3) == 0 && len(ints) > 0 {
		// closure over parameters
		c := g.fresh("g")
		body = append(body, fmt.Sprintf("%s = func() { %s }", c, g.intExpr(ints, 2)))
		body = append(body, fmt.Sprintf("%s = %s + %s()", acc, acc, c))
	}
	if g.r.Intn(4) != 0 {
		body = append(body, g.loop(ints, 1+g.r.Intn(3), true, acc))
	}
	body = append(body, fmt.Sprintf("%s + %s", acc, g.intExpr(ints, 2)))
	src := fmt.Sprintf("func %s(%s) {\n%s\n}", name, strings.Join(params, ", "), strings.Join(body, "\n"))
	return name, src
}

// mixedCall: a function of n parameters of mixed kinds that only prints and combines them (no arithmetic on
// non-integers), called with values of those kinds.
func (g *c05gen) mixedCall(n int) string {
	name := g.fresh("m")
	var params, args, uses []string
	var ints []string
	for i := 0; i < n; i++ {
		p := g.fresh("q")
		k := c05argKinds[g.r.Intn(len(c05argKinds))]
		params = append(params, p)
		args = append(args, g.arg(k, nil))
		uses = append(uses, p)
		if k == "int" {
			ints = append(ints, p)
		}
	}
	var body []string
	for _, p := range ints {
		switch g.r.Intn(4) {
		case 0:
			body = append(body, p+"++")
		case 1:
			body = append(body, p+"--")
		case 2:
			body = append(body, fmt.Sprintf("%s = %s", p, g.intExpr(ints, 2)))
		}
	}
	body = append(body, "println("+strings.Join(append([]string{`"m"`}, uses...), ", ")+")")
	body = append(body, g.intExpr(ints, 2))
	return fmt.Sprintf("func %s(%s) {\n%s\n}\nprintln(%s(%s))", name, strings.Join(params, ", "), strings.Join(body, "\n"), name, strings.Join(args, ", "))
}

func (g *c05gen) program() string {
	g.funcs, g.arity = nil, map[string]int{}
	var parts []string
	nf := g.r.Intn(3)
	for i := 0; i < nf; i++ {
		n := g.r.Intn(13)
		name, src := g.function(n)
		parts = append(parts, src)
		g.funcs = append(g.funcs, name)
		g.arity[name] = n
	}
	acc := g.fresh("t")
	parts = append(parts, acc+" = 0", "esc = -1", "escm = {}", "escl = {}")
	switch g.r.Intn(4) {
	case 0: // deep nest
		parts = append(parts, g.loop(nil, 4+g.r.Intn(7), false, acc))
	case 1: // long sequence of loops in one environment
		n := 9 + g.r.Intn(12)
		for i := 0; i < n; i++ {
			parts = append(parts, g.loop(nil, 1+g.r.Intn(2), false, acc))
			parts = append(parts, "println("+acc+")")
		}
	case 2:
		parts = append(parts, g.mixedCall(g.r.Intn(13)))
		parts = append(parts, g.loop(nil, 1+g.r.Intn(3), false, acc))
	default:
		parts = append(parts, g.loop(nil, 1+g.r.Intn(3), false, acc))
	}
	for _, f := range g.funcs {
		_ = f
		parts = append(parts, "println("+g.call(nil)+")")
	}
	parts = append(parts, "for zz = 0:9 { }", "println("+acc+", esc, escm, escl)")
	return strings.Join(parts, "\n") + "\n"
}

// c05Witnesses: one fixed program per known finding id.
var c05Witnesses = []struct{ id, src string }{
	{"loopvar-outlives-loop", "for y = 0:3 { }\nprintln(y)\n"},
	{"loopvar-overwrites-binding", "x = 10\nfor x = 0:3 { }\nprintln(x)\n"},
	{"loopvar-assigned-in-body", "i = 5\nfor i = 0:2 { i = 7 }\nprintln(i)\n"},
	{"function-literal-in-loop", "for k = 0:3 { f = func() { 1 } }\nprintln(f())\n"},
	{"param-assigned-non-integer", "func f(a) { a = \"s\"; a }\nprintln(f(1))\n"},
	{"loopvar-is-register", "func f(a) { for a = 0:2 { println(a) }; a }\nprintln(f(5))\n"},
	{"loopvar-incremented-in-body", "for i = 0:5 { i++; println(i) }\n"},
	{"register-named-in-error", "func h(a) { a[5] }\nh(1)\n"},
	{"loopvar-is-outer-loopvar", "for i = 0:2 { for i = 0:2 { println(i) } }\n"},
}

func TestVerifBoundedRegisters(t *testing.T) {
	n := 3000
	if os.Getenv("VERIF_TIER") == "thorough" {
		n = 40000
	}
	evals, fails := 0, 0
	for seed := 1; seed <= n; seed++ {
		g := &c05gen{r: rand.New(rand.NewSource(int64(seed)))}
		src := g.program()
		evals += 2
		a, b := c05Run(src, false, 3*time.Second), c05Run(src, true, 3*time.Second)
		if a != b && (strings.HasPrefix(a, "TIMEOUT") || strings.HasPrefix(b, "TIMEOUT")) {
			// a deadline hit in one run only: decide with a deadline no machine load can explain
			a, b = c05Run(src, false, 60*time.Second), c05Run(src, true, 60*time.Second)
		}
		if a != b {
			fails++
			if fails > 20 {
				break // a broken tree: enough evidence
			}
			if fails <= 3 {
				fmt.Printf("BOUNDED-FAIL registers on/off differ for generated program seed=%d: %q: with registers %q, without %q\n", seed, src, c05Cut(a), c05Cut(b))
			}
		}
	}
	for _, w := range c05Witnesses {
		evals += 2
		a, b := c05Run(w.src, false, 3*time.Second), c05Run(w.src, true, 3*time.Second)
		if a != b {
			fmt.Printf("BOUNDED-KNOWN %s %q: with registers %q, without %q\n", w.id, w.src, a, b)
		}
	}
	fmt.Printf("BOUNDED evaluations=%d distinct=%d exhaustive=false bound=%q\n", evals, evals/2,
		fmt.Sprintf("%d generated programs (seeds 1..%d: functions of 0..12 parameters, loop nests to depth 10, up to 20 top-level loops, break/continue/return/error exits, parameter mutation, closures over parameters) + %d fixed witnesses, each run with registers on and off through repl.EvalStringWithOption", n, n, len(c05Witnesses)))
	if fails > 0 {
		t.Fatalf("%d failures", fails)
	}
}
