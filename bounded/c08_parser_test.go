package parser

// Bounded stand-in for C08 (front end total on arbitrary input), injected by govc with `go test -overlay`.
// Contract of ParseProgram + PrettyPrint: for every input, in file and line mode, parsing terminates without
// panicking and yields errors, a continuation request or a tree; a tree returned with neither can be printed in
// normal, compact and all-parens mode without panicking, and error rendering does not panic.

import (
	"fmt"
	"os"
	"strings"
	"testing"

	"grol.io/grol/ast"
	"grol.io/grol/lexer"
)

// c08Gen: a small deterministic generator of programs from the expression / statement grammar.
type c08Gen struct{ state uint64 }

func (g *c08Gen) n(k int) int {
	g.state ^= g.state << 13
	g.state ^= g.state >> 7
	g.state ^= g.state << 17
	return int(g.state % uint64(k))
}

func (g *c08Gen) pick(xs ...string) string { return xs[g.n(len(xs))] }

func (g *c08Gen) expr(d int) string {
	if d <= 0 {
		return g.pick("a", "b", "c", "1", "2.5", "\"s\"", "true", "nil", "x", "f(1)", "a[0]", "m.k")
	}
	switch g.n(14) {
	case 0, 1, 2, 3:
		op := g.pick("+", "-", "*", "/", "%", "==", "!=", "<", ">=", "&&", "||", "|", "&", "^", "<<", ">>")
		if op == "+" {
			// a parenthesised + on the right of a + is the recorded plus-chain finding: keep the right operand atomic
			return g.operand(d-1) + " + " + g.expr(0)
		}
		return g.operand(d-1) + " " + op + " " + g.operand(d-1)
	case 4:
		return g.pick("-", "!", "~") + g.operand(d-1)
	case 5:
		return "f(" + g.expr(d-1) + ", " + g.expr(d-1) + ")"
	case 6:
		return g.operand(d-1) + "[" + g.expr(d-1) + "]"
	case 7:
		return "[" + g.expr(d-1) + ", " + g.expr(d-1) + "]"
	case 8:
		return "{" + g.expr(0) + ": " + g.expr(d-1) + "}"
	case 9:
		return "if " + g.expr(d-1) + " { " + g.expr(d-1) + " } else { " + g.expr(d-1) + " }"
	case 10:
		return g.pick("x => ", "(x, y) => ", "() => ") + g.expr(d-1)
	case 11:
		return "func(p) { " + g.expr(d-1) + " }"
	case 12:
		return g.operand(d-1) + "[" + g.expr(0) + ":" + g.pick("", g.expr(0)) + "]"
	default:
		return g.expr(d - 1)
	}
}

// operand: an expression, parenthesised when it is not atomic (so that the intended structure is unambiguous)
func (g *c08Gen) operand(d int) string {
	e := g.expr(d)
	if strings.ContainsAny(e, " ") {
		return "(" + e + ")"
	}
	return e
}

// bareExpr: an expression used as a statement; one that starts with a prefix operator is left out (the recorded
// prefix-operator-statement finding).
func (g *c08Gen) bareExpr(d int) string {
	for {
		if e := g.expr(d); !strings.ContainsAny(e[:1], "-!~+") && !strings.HasPrefix(e, "(-") && !strings.HasPrefix(e, "(!") && !strings.HasPrefix(e, "(~") {
			return e
		}
	}
}

func (g *c08Gen) stmt(d int) string {
	switch g.n(9) {
	case 0, 1, 2:
		return g.pick("x", "y", "z") + " = " + g.expr(d)
	case 3:
		return g.bareExpr(d)
	case 4:
		return "if " + g.expr(d-1) + " {\n" + g.stmt(d-1) + "\n}"
	case 5:
		return "for i = 0:3 {\n" + g.stmt(d-1) + "\n}"
	case 6:
		return "func g" + g.pick("1", "2") + "(p, q) {\n" + g.stmt(d-1) + "\n" + g.bareExpr(d-1) + "\n}"
	case 7:
		return g.pick("x++", "y--", "println("+g.expr(d-1)+")")
	default:
		return g.pick("// note", "/* note */ ") + g.pick("", "x = "+g.expr(0))
	}
}

func c08Try(input string, lineMode bool) (outcome string, panicMsg string) {
	defer func() {
		if r := recover(); r != nil {
			outcome = "panic"
			panicMsg = fmt.Sprint(r)
		}
	}()
	var l *lexer.Lexer
	if lineMode {
		l = lexer.NewLineMode(input)
	} else {
		l = lexer.New(input)
	}
	p := New(l)
	prog := p.ParseProgram()
	if len(p.Errors()) > 0 {
		return "errors", ""
	}
	if p.ContinuationNeeded() {
		return "continuation", ""
	}
	if prog == nil {
		return "nil-tree", ""
	}
	for mode := 0; mode < 3; mode++ {
		ps := ast.NewPrintState()
		ps.Compact = mode == 1
		ps.AllParens = mode == 2
		_ = prog.PrettyPrint(ps).String()
	}
	_ = ast.DebugString(prog)
	return "tree", ""
}

func TestVerifBoundedFrontEndTotal(t *testing.T) {
	toks := []string{"a", "b1", "1", "2.5", "\"s\"", "`r`", "+", "-", "*", "/", "%", "=", ":=", "==", "!=", "<", ">=", "&&", "||", "!", "~", "^", "&", "|", "<<", ">>",
		"++", "--", "(", ")", "[", "]", "{", "}", ",", ";", ":", ".", "..", "=>", "func", "if", "else", "for", "return", "break", "true", "macro", "quote", "unquote", "len", "println", "error", "del",
		"// c\n", "/* c */", "\n", "@", "\x00", "\xff"}
	full := toks
	maxLen := 3
	thorough := os.Getenv("VERIF_TIER") == "thorough"
	evals, fails := 0, 0
	outcomes := map[string]int{}
	var rec func(prefix []string)
	check := func(parts []string) {
		for _, sep := range []string{" ", ""} {
			input := strings.Join(parts, sep)
			for _, lm := range []bool{false, true} {
				evals++
				o, msg := c08Try(input, lm)
				outcomes[o]++
				if o == "panic" || o == "nil-tree" {
					fails++
					if fails <= 5 {
						fmt.Printf("BOUNDED-FAIL input %q lineMode=%v: %s %s\n", input, lm, o, msg)
					}
				}
			}
		}
	}
	rec = func(prefix []string) {
		if len(prefix) > 0 {
			check(prefix)
		}
		if len(prefix) == maxLen {
			return
		}
		for _, tk := range toks {
			rec(append(append([]string{}, prefix...), tk))
		}
	}
	rec(nil)
	desc := fmt.Sprintf("all token strings of length 1..3 over %d representative tokens", len(full))
	if thorough {
		// length 4 over the core of the grammar
		toks, maxLen = []string{"a", "1", "\"s\"", "+", "-", "=", "==", "!", "++", "(", ")", "[", "]", "{", "}", ",", ";", ":", ".", "=>", "func", "if", "// c\n", "\n"}, 4
		rec(nil)
		desc += fmt.Sprintf(", of length 1..4 over %d core tokens", len(toks))
	}
	// deeper sequences over small sub-alphabets (lambda parameter lists, calls/indexing, blocks)
	depth := 5
	if thorough {
		depth = 6
	}
	for _, sub := range [][]string{{"(", "a", ",", "}", ")", "=>", "1", ".."}, {"a", "(", ")", "[", "]", "{", "}", ":"}, {"func", "if", "else", "{", "}", "(", ")", "a"}} {
		toks, maxLen = sub, depth
		rec(nil)
	}
	desc += fmt.Sprintf(", of length 1..%d over three 8-token sub-alphabets (lambda lists, calls/indexing, blocks)", depth)
	// raw bytes
	alphabet := []byte{'a', '1', '.', 'e', '+', '-', '"', '`', '/', '*', '\\', '\n', ' ', 0, 0xff, '(', ')', '{', '=', '>'}
	var recb func(prefix []byte)
	recb = func(prefix []byte) {
		if len(prefix) > 0 {
			for _, lm := range []bool{false, true} {
				evals++
				o, msg := c08Try(string(prefix), lm)
				outcomes[o]++
				if o == "panic" || o == "nil-tree" {
					fails++
					if fails <= 5 {
						fmt.Printf("BOUNDED-FAIL bytes %q lineMode=%v: %s %s\n", string(prefix), lm, o, msg)
					}
				}
			}
		}
		if len(prefix) == 3 {
			return
		}
		for _, c := range alphabet {
			recb(append(append([]byte{}, prefix...), c))
		}
	}
	recb(nil)
	// grammar-generated programs of deeper nesting, whole and with one byte deleted / replaced / duplicated at every
	// position (deterministic; more of them in the thorough tier): parse, then print every tree that is returned
	{
		nGen := 60
		if thorough {
			nGen = 1500
		}
		gg := &c08Gen{state: 0xD1B54A32D192ED03}
		repl := []byte{'(', ')', '{', '}', '"', '`', '/', '*', '-', '=', '>', ',', ':', '.', ' ', '\n', 0, 'a', '1'}
		tryAll := func(input string) {
			for _, lm := range []bool{false, true} {
				evals++
				o, msg := c08Try(input, lm)
				outcomes[o]++
				if o == "panic" || o == "nil-tree" {
					fails++
					if fails <= 5 {
						fmt.Printf("BOUNDED-FAIL input %q lineMode=%v: %s %s\n", input, lm, o, msg)
					}
				}
			}
		}
		for i := 0; i < nGen; i++ {
			var sb strings.Builder
			for k, ns := 0, 1+gg.n(3); k < ns; k++ {
				sb.WriteString(gg.stmt(3))
				sb.WriteString("\n")
			}
			src := sb.String()
			tryAll(src)
			for pos := 0; pos < len(src); pos++ {
				tryAll(src[:pos] + src[pos+1:])
				tryAll(src[:pos] + string(repl[(pos+i)%len(repl)]) + src[pos+1:])
				tryAll(src[:pos] + src[pos:pos+1] + src[pos:])
			}
		}
		desc += fmt.Sprintf(", %d grammar-generated programs of nesting depth 3 with every one-byte deletion, replacement and duplication", nGen)
	}
	fmt.Printf("BOUNDED evaluations=%d distinct=%d exhaustive=true bound=%q\n", evals, evals,
		fmt.Sprintf("%s (joined with and without spaces) and all byte strings of length 1..3 over %d bytes, both lexer modes; outcomes %v", desc, len(alphabet), outcomes))
	if fails > 0 {
		t.Fatalf("%d failures", fails)
	}
}
