package parser

// Bounded stand-in for C08 (front end total on arbitrary input), injected by govc with `go test -overlay`.
// Contract of ParseProgram + PrettyPrint: for every input, in file and line mode, parsing terminates without
// panicking and yields errors, a continuation request or a tree; a tree returned with neither can be printed in
// normal, compact and all-parens mode without panicking, and error rendering does not panic.

import (
	"fmt"
	"os"
	"strings"
	"testing"

	"grol.io/grol/ast"
	"grol.io/grol/lexer"
)

func c08Try(input string, lineMode bool) (outcome string, panicMsg string) {
	defer func() {
		if r := recover(); r != nil {
			outcome = "panic"
			panicMsg = fmt.Sprint(r)
		}
	}()
	var l *lexer.Lexer
	if lineMode {
		l = lexer.NewLineMode(input)
	} else {
		l = lexer.New(input)
	}
	p := New(l)
	prog := p.ParseProgram()
	if len(p.Errors()) > 0 {
		return "errors", ""
	}
	if p.ContinuationNeeded() {
		return "continuation", ""
	}
	if prog == nil {
		return "nil-tree", ""
	}
	for mode := 0; mode < 3; mode++ {
		ps := ast.NewPrintState()
		ps.Compact = mode == 1
		ps.AllParens = mode == 2
		_ = prog.PrettyPrint(ps).String()
	}
	_ = ast.DebugString(prog)
	return "tree", ""
}

func TestVerifBoundedFrontEndTotal(t *testing.T) {
	toks := []string{"a", "b1", "1", "2.5", "\"s\"", "`r`", "+", "-", "*", "/", "%", "=", ":=", "==", "!=", "<", ">=", "&&", "||", "!", "~", "^", "&", "|", "<<", ">>",
		"++", "--", "(", ")", "[", "]", "{", "}", ",", ";", ":", ".", "..", "=>", "func", "if", "else", "for", "return", "break", "true", "macro", "quote", "unquote", "len", "println", "error", "del",
		"// c\n", "/* c */", "\n", "@", "\x00", "\xff"}
	full := toks
	maxLen := 3
	thorough := os.Getenv("VERIF_TIER") == "thorough"
	evals, fails := 0, 0
	outcomes := map[string]int{}
	var rec func(prefix []string)
	check := func(parts []string) {
		for _, sep := range []string{" ", ""} {
			input := strings.Join(parts, sep)
			for _, lm := range []bool{false, true} {
				evals++
				o, msg := c08Try(input, lm)
				outcomes[o]++
				if o == "panic" || o == "nil-tree" {
					fails++
					if fails <= 5 {
						fmt.Printf("BOUNDED-FAIL input %q lineMode=%v: %s %s\n", input, lm, o, msg)
					}
				}
			}
		}
	}
	rec = func(prefix []string) {
		if len(prefix) > 0 {
			check(prefix)
		}
		if len(prefix) == maxLen {
			return
		}
		for _, tk := range toks {
			rec(append(append([]string{}, prefix...), tk))
		}
	}
	rec(nil)
	desc := fmt.Sprintf("all token strings of length 1..3 over %d representative tokens", len(full))
	if thorough {
		// length 4 over the core of the grammar
		toks, maxLen = []string{"a", "1", "\"s\"", "+", "-", "=", "==", "!", "++", "(", ")", "[", "]", "{", "}", ",", ";", ":", ".", "=>", "func", "if", "// c\n", "\n"}, 4
		rec(nil)
		desc += fmt.Sprintf(", of length 1..4 over %d core tokens", len(toks))
	}
	// deeper sequences over small sub-alphabets (lambda parameter lists, calls/indexing, blocks)
	depth := 5
	if thorough {
		depth = 6
	}
	for _, sub := range [][]string{{"(", "a", ",", "}", ")", "=>", "1", ".."}, {"a", "(", ")", "[", "]", "{", "}", ":"}, {"func", "if", "else", "{", "}", "(", ")", "a"}} {
		toks, maxLen = sub, depth
		rec(nil)
	}
	desc += fmt.Sprintf(", of length 1..%d over three 8-token sub-alphabets (lambda lists, calls/indexing, blocks)", depth)
	// raw bytes
	alphabet := []byte{'a', '1', '.', 'e', '+', '-', '"', '`', '/', '*', '\\', '\n', ' ', 0, 0xff, '(', ')', '{', '=', '>'}
	var recb func(prefix []byte)
	recb = func(prefix []byte) {
		if len(prefix) > 0 {
			for _, lm := range []bool{false, true} {
				evals++
				o, msg := c08Try(string(prefix), lm)
				outcomes[o]++
				if o == "panic" || o == "nil-tree" {
					fails++
					if fails <= 5 {
						fmt.Printf("BOUNDED-FAIL bytes %q lineMode=%v: %s %s\n", string(prefix), lm, o, msg)
					}
				}
			}
		}
		if len(prefix) == 3 {
			return
		}
		for _, c := range alphabet {
			recb(append(append([]byte{}, prefix...), c))
		}
	}
	recb(nil)
	fmt.Printf("BOUNDED evaluations=%d distinct=%d exhaustive=true bound=%q\n", evals, evals,
		fmt.Sprintf("%s (joined with and without spaces) and all byte strings of length 1..3 over %d bytes, both lexer modes; outcomes %v", desc, len(alphabet), outcomes))
	if fails > 0 {
		t.Fatalf("%d failures", fails)
	}
}
