package repl

// Bounded stand-in for the observational part of C04, injected by govc with `go test -overlay` (needs tag verif
// for the eval.VerifNoCache hook): generated programs are evaluated with the function-result cache on and off;
// printed output (order and multiplicity of print side effects), results and errors must be identical.
// The programs call functions repeatedly with the same arguments while changing what the functions can depend on:
// global variables (read directly and through one or two levels of callees), captured variables of closures,
// redefinition of a function, container arguments, printing inside functions, errors, recursion.

import (
	"context"
	"fmt"
	"math/rand"
	"os"
	"strings"
	"testing"
	"time"

	"grol.io/grol/eval"
)

func c04Run(src string, noCache bool) string {
	eval.VerifNoCache = noCache
	defer func() { eval.VerifNoCache = false }()
	o := Options{All: true, ShowEval: true, NoColor: true, Compact: true, AutoLoad: false, AutoSave: false, MaxDuration: 10 * time.Second}
	res, errs, _ := EvalStringWithOption(context.Background(), o, src)
	return res + "\n--errs--\n" + strings.Join(errs, "\n")
}

type c04gen struct {
	r *rand.Rand
}

func (g *c04gen) pick(xs ...string) string { return xs[g.r.Intn(len(xs))] }

// program builds: globals g0..g2; leaf functions (pure, global-reading, printing, erroring); mid functions calling leaves;
// top functions calling mids; then a sequence of statements that call functions and mutate globals / redefine functions.
func (g *c04gen) program() string {
	var b strings.Builder
	b.WriteString("g0 = 1\ng1 = 10\ng2 = [1,2,3]\n")
	leafBodies := []string{
		"a + b",                       // pure
		"a * 2 + g0",                  // reads a global
		"println(\"leaf\", a); a + 1", // print side effect
		"if a > 2 { error(\"too big\", a) } else { a }",
		"g2[a % 3] + b",   // reads a global container
		"a + g1 + g0",     // two globals
		"len(str(a)) + b", // grol-defined helper
		"if a <= 0 { 0 } else { a + self(a - 1, b) }",                                            // recursion
		"if a <= 0 { 0 } else { g0 + self(a - 1, b) }",                                           // recursion whose every level reads a global before recursing
		"y = g1; h = func() { g1 * 2 }; y + h() + a",                                             // a lambda reading the global its parent already read
		"r = catch(if a > 1 { error(\"no\", g0) } else { a }); if r.err { -1 } else { r.value }", // caught error depending on a global
	}
	nLeaf := 3 + g.r.Intn(3)
	var leaves []string
	for i := 0; i < nLeaf; i++ {
		name := fmt.Sprintf("leaf%d", i)
		leaves = append(leaves, name)
		fmt.Fprintf(&b, "func %s(a, b) { %s }\n", name, leafBodies[g.r.Intn(len(leafBodies))])
	}
	var mids []string
	for i := 0; i < 2+g.r.Intn(2); i++ {
		name := fmt.Sprintf("mid%d", i)
		mids = append(mids, name)
		l1, l2 := leaves[g.r.Intn(len(leaves))], leaves[g.r.Intn(len(leaves))]
		switch g.r.Intn(3) {
		case 0:
			fmt.Fprintf(&b, "func %s(a) { %s(a, 1) + %s(a, 2) }\n", name, l1, l2)
		case 1:
			fmt.Fprintf(&b, "func %s(a) { x = %s(a, 1); println(\"mid\", x); x }\n", name, l1)
		default:
			fmt.Fprintf(&b, "func %s(a) { (() => %s(a, g0))() }\n", name, l1)
		}
	}
	var tops []string
	for i := 0; i < 2; i++ {
		name := fmt.Sprintf("top%d", i)
		tops = append(tops, name)
		fmt.Fprintf(&b, "func %s(a) { %s(a) + %s(a + 1) }\n", name, mids[g.r.Intn(len(mids))], mids[g.r.Intn(len(mids))])
	}
	// a counter closure (captured mutable state)
	b.WriteString("func mk() { c = 0; func() { c = c + 1; c } }\ncnt = mk()\n")
	all := append(append(append([]string{}, leaves...), mids...), tops...)
	for i := 0; i < 12+g.r.Intn(10); i++ {
		switch g.r.Intn(9) {
		case 0:
			fmt.Fprintf(&b, "g0 = g0 + %d\n", 1+g.r.Intn(3))
		case 1:
			fmt.Fprintf(&b, "g1 = %d\n", g.r.Intn(50))
		case 2:
			fmt.Fprintf(&b, "g2 = [%d, %d, %d]\n", g.r.Intn(9), g.r.Intn(9), g.r.Intn(9))
		case 3:
			// (redefinition of a function that others call is a recorded finding: see the witnesses below)
			fmt.Fprintf(&b, "g1 = g1 + %d\n", g.r.Intn(5))
		case 4:
			b.WriteString("println(\"cnt\", cnt())\n")
		default:
			f := all[g.r.Intn(len(all))]
			arg := g.r.Intn(4)
			if strings.HasPrefix(f, "leaf") {
				fmt.Fprintf(&b, "println(\"%s\", %s(%d, %d))\n", f, f, arg, g.r.Intn(3))
			} else {
				fmt.Fprintf(&b, "println(\"%s\", %s(%d))\n", f, f, arg)
			}
		}
	}
	return b.String()
}

func TestVerifBoundedMemo(t *testing.T) {
	n := 1500
	if os.Getenv("VERIF_TIER") == "thorough" {
		n = 20000
	}
	evals, fails := 0, 0
	fixed := []string{
		"x=1\nfunc g(){x}\nfunc f(){g()}\nprintln(f())\nx=2\nprintln(f())\n",
		"x=1\nfunc h(){x}\nfunc g(){h()}\nfunc f(){g()}\nprintln(f())\nx=5\nprintln(f())\n",
		"func f(n){println(\"side\", n); n+1}\nprintln(f(1))\nprintln(f(1))\n",
		"func f(x){x+1}\nprintln(f(1))\nfunc f(x){x+2}\nprintln(f(1))\n",
		"func mid1(a) { (() => leaf2(a, 1))() }\nfunc leaf2(a, b) { a + b }\nfunc top0(a) { mid1(a) + mid1(a + 1) }\nprintln(top0(3))\nprintln(top0(3))\n",
		"func fib(n){if n<2 {n} else {fib(n-1)+fib(n-2)}}\nprintln(fib(25))\nprintln(fib(25))\n",
		"a=[1]\nfunc f(i){a[i]}\nprintln(f(0))\na=[2]\nprintln(f(0))\n",
		"func f(a){ g = func(){a}; g() }\nprintln(f(1), f(2), f(1))\n",
		"func e(x){ if x>1 {error(\"boom\")} else {x} }\nprintln(e(0))\nprintln(e(0))\ne(2)\n",
		"x=1\nfunc f(n){ if n<=0 {return 0}; x + f(n-1) }\nprintln(f(3))\nx=10\nprintln(f(2), f(1))\n",
		"x=1\nfunc outer(){ y=x; g=func(){println(\"in g\"); x*2}; y+g() }\nprintln(outer())\nx=5\nprintln(outer())\n",
		"limit=3\nfunc chk(v){ if v > limit {error(\"rejected\", v)} else {v} }\nfunc safe(v){ r = catch(chk(v)); if r.err {println(\"rejected\", v); -1} else {r.value} }\nprintln(safe(5))\nlimit=10\nprintln(safe(5))\n",
	}
	check := func(desc, src string) {
		evals += 2
		a, b := c04Run(src, false), c04Run(src, true)
		if a != b {
			fails++
			if fails <= 3 {
				fmt.Printf("BOUNDED-FAIL cache on/off differ for %s: %q: with cache %q, without %q\n", desc, src, c04Cut(a), c04Cut(b))
			}
		}
	}
	for i, src := range fixed {
		check(fmt.Sprintf("fixed program #%d", i), src)
	}
	// witnesses of recorded findings
	witnesses := []struct{ id, src string }{
		{"callee-redefined", "func h(x){x+1}\nfunc c(y){h(y)}\nprintln(c(1))\nfunc h(x){x+2}\nprintln(c(1))\n"},
		{"function-variable-rebound", "h = (x) => x+1\nfunc c(y){h(y)}\nprintln(c(1))\nh = (x) => x+2\nprintln(c(1))\n"},
	}
	for _, w := range witnesses {
		evals += 2
		a, b := c04Run(w.src, false), c04Run(w.src, true)
		if a != b {
			fmt.Printf("BOUNDED-KNOWN %s %q: with cache %q, without %q\n", w.id, w.src, c04Cut(a), c04Cut(b))
		}
	}
	for seed := 1; seed <= n && fails <= 20; seed++ {
		g := &c04gen{r: rand.New(rand.NewSource(int64(seed)))}
		check(fmt.Sprintf("generated program seed=%d", seed), g.program())
	}
	fmt.Printf("BOUNDED evaluations=%d distinct=%d exhaustive=false bound=%q\n", evals, evals/2,
		fmt.Sprintf("%d fixed + %d generated programs (seeds 1..%d): 3-5 leaf functions (pure, global-reading, printing, erroring, recursive), 2-3 functions calling them, 2 calling those, a counter closure, 12-21 statements mixing calls with repeated arguments and global mutation; 2 witnesses of the recorded redefinition findings; each run with the cache on and off (eval.VerifNoCache)", len(fixed), n, n))
	if fails > 0 {
		t.Fatalf("%d failures", fails)
	}
}

func c04Cut(s string) string {
	if len(s) > 600 {
		return s[:300] + " ... " + s[len(s)-300:]
	}
	return s
}
