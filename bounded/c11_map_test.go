package object

// Bounded stand-in for C11 (maps behave as finite maps in key order whatever their history), injected by govc with
// `go test -overlay`.  Contract of the object.Map API against a reference association list: after every operation
// sequence, Len / Get / iteration order (First/Rest) / Inspect / Equals agree with the reference, whatever mix of
// small (<=4 pairs) and big representations the history went through.

import (
	"fmt"
	"os"
	"sort"
	"strings"
	"testing"
)

type c11ref struct {
	keys []Object
	vals map[int]Object // index in universe -> value
}

func c11Keys() []Object {
	return []Object{Integer{Value: 1}, Integer{Value: 2}, Float{Value: 1.5}, String{Value: "a"}, TRUE, NULL, NewArray([]Object{Integer{Value: 1}}), Integer{Value: -3}}
}

func c11Inspect(keys []Object, present map[int]Object) string {
	idx := make([]int, 0, len(present))
	for i := range present {
		idx = append(idx, i)
	}
	sort.Slice(idx, func(a, b int) bool { return Cmp(keys[idx[a]], keys[idx[b]]) < 0 })
	var sb strings.Builder
	sb.WriteString("{")
	for n, i := range idx {
		if n > 0 {
			sb.WriteString(",")
		}
		sb.WriteString(keys[i].Inspect() + ":" + present[i].Inspect())
	}
	sb.WriteString("}")
	return sb.String()
}

func TestVerifBoundedMapModel(t *testing.T) {
	keys := c11Keys()
	vals := []Object{Integer{Value: 10}, String{Value: "v"}}
	maxOps := 5
	nk := 6
	if os.Getenv("VERIF_TIER") == "thorough" {
		nk = 7 // one more key; a sixth operation would be 26^6 histories
	}
	type op struct {
		kind int // 0 set, 1 delete, 2 rest, 3 append-other, 4 range-prefix
		k, v int
	}
	var ops []op
	for k := 0; k < nk; k++ {
		for v := range vals {
			ops = append(ops, op{0, k, v})
		}
		ops = append(ops, op{1, k, 0})
	}
	ops = append(ops, op{2, 0, 0}, op{3, 0, 0}, op{4, 0, 0}, op{5, 0, 0}, op{6, 0, 0})
	// the "other" map merged by op 3: two fixed pairs
	evals, fails := 0, 0
	report := func(format string, a ...any) {
		fails++
		if fails <= 5 {
			fmt.Printf("BOUNDED-FAIL "+format+"\n", a...)
		}
	}
	seen := map[string]bool{}
	var rec func(m Map, present map[int]Object, hist []string, depth int)
	check := func(m Map, present map[int]Object, hist []string) {
		evals++
		want := c11Inspect(keys, present)
		if got := m.Inspect(); got != want {
			report("history %v: Inspect=%s want %s", hist, got, want)
		}
		if m.Len() != len(present) {
			report("history %v: Len=%d want %d", hist, m.Len(), len(present))
		}
		for i := 0; i < nk+1 && i < len(keys); i++ {
			v, ok := m.Get(keys[i])
			w, has := present[i]
			if ok != has || (ok && !Equals(v, w)) {
				report("history %v: Get(%s)=(%v,%v) want (%v,%v)", hist, keys[i].Inspect(), v, ok, w, has)
			}
		}
		// iteration by first/rest
		var it Object = m
		n := 0
		for Len(it) > 0 && n <= len(present)+1 {
			n++
			it = Rest(it)
			if it == nil || it.Type() == ERROR {
				report("history %v: rest() failed after %d steps: %v", hist, n, it)
				break
			}
		}
		if n != len(present) {
			report("history %v: first/rest iteration visits %d entries, want %d", hist, n, len(present))
		}
		// equality with a freshly built map of the same content (built in a different order)
		fresh := NewMap()
		for i := len(keys) - 1; i >= 0; i-- {
			if w, has := present[i]; has {
				fresh = fresh.Set(keys[i], w)
			}
		}
		if !Equals(m, fresh) {
			report("history %v: not Equals to a freshly built map %s", hist, fresh.Inspect())
		}
	}
	rec = func(m Map, present map[int]Object, hist []string, depth int) {
		check(m, present, hist)
		seen[m.Inspect()+fmt.Sprintf("%T", m)] = true
		if depth == maxOps {
			return
		}
		for _, o := range ops {
			np := map[int]Object{}
			for k, v := range present {
				np[k] = v
			}
			var nm Map
			var h string
			switch o.kind {
			case 0:
				nm = m.Set(keys[o.k], vals[o.v])
				np[o.k] = vals[o.v]
				h = fmt.Sprintf("set(%s,%s)", keys[o.k].Inspect(), vals[o.v].Inspect())
			case 1:
				// Delete may mutate big maps in place (see C06): work on a rebuilt copy to keep histories independent
				cp := NewMap()
				for k, v := range present {
					cp = cp.Set(keys[k], v)
				}
				_ = cp
				var ok bool
				nm, ok = m.Delete(keys[o.k])
				_, had := present[o.k]
				if ok != had {
					report("history %v: Delete(%s) reported %v, want %v", hist, keys[o.k].Inspect(), ok, had)
				}
				delete(np, o.k)
				h = fmt.Sprintf("del(%s)", keys[o.k].Inspect())
			case 2:
				if len(present) <= 1 {
					continue
				}
				r := Rest(m)
				rm, isMap := r.(Map)
				if !isMap {
					report("history %v: rest() did not return a map: %v", hist, r)
					continue
				}
				nm = rm
				// drop smallest key
				small := -1
				for k := range np {
					if small < 0 || Cmp(keys[k], keys[small]) < 0 {
						small = k
					}
				}
				delete(np, small)
				h = "rest"
			case 3:
				other := NewMap().Set(keys[0], vals[1]).Set(keys[nk], vals[0])
				nm = m.Append(other)
				np[0] = vals[1]
				np[nk] = vals[0]
				h = "append{k0,kN}"
			case 5:
				nm = m.Append(NewMap())
				h = "append{}"
			case 6:
				// merge with a BIG right operand (5 pairs) that shares keys: the right value wins
				other := NewMap()
				for k := 0; k < 5; k++ {
					other = other.Set(keys[k], vals[1])
					np[k] = vals[1]
				}
				nm = m.Append(other)
				h = "append{k0..k4 big}"
			case 4:
				if len(present) < 2 {
					continue
				}
				r := Range(m, 0, int64(len(present)-1))
				rm, isMap := r.(Map)
				if !isMap {
					report("history %v: range did not return a map: %v", hist, r)
					continue
				}
				nm = rm
				big := -1
				for k := range np {
					if big < 0 || Cmp(keys[k], keys[big]) > 0 {
						big = k
					}
				}
				delete(np, big)
				h = "range[0:n-1]"
			}
			// big maps are mutated in place by Set/Delete (recorded under C06): rebuild the source so that sibling
			// branches of the enumeration start from the intended state
			src := NewMap()
			for k, v := range present {
				src = src.Set(keys[k], v)
			}
			rec(nm, np, append(append([]string{}, hist...), h), depth+1)
			m = src
		}
	}
	rec(NewMap(), map[int]Object{}, nil, 0)
	// every merge L + R of two maps over the key universe (all subsets on both sides: every interleaving of key types,
	// every size on either side of the 4-pair threshold); the right operand's values win
	// (two universes: the mixed-type keys, then nine numeric keys - integers and floats interleave in key order)
	allKeys := keys
	for _, universe := range [][]Object{allKeys, {Integer{Value: -3}, Integer{Value: 1}, Integer{Value: 2}, Integer{Value: 4}, Integer{Value: 7}, Float{Value: -0.5}, Float{Value: 1.5}, Float{Value: 2.5}, Float{Value: 6.5}}} {
		keys = universe
		nAll := len(keys)
		for lmask := 0; lmask < 1<<nAll; lmask++ {
			for rmask := 0; rmask < 1<<nAll; rmask++ {
				l, r := NewMap(), NewMap()
				present := map[int]Object{}
				for k := 0; k < nAll; k++ {
					if lmask&(1<<k) != 0 {
						l = l.Set(keys[k], vals[0])
						present[k] = vals[0]
					}
				}
				for k := nAll - 1; k >= 0; k-- {
					if rmask&(1<<k) != 0 {
						r = r.Set(keys[k], vals[1])
						present[k] = vals[1]
					}
				}
				check(l.Append(r), present, []string{fmt.Sprintf("merge %s + %s", l.Inspect(), r.Inspect())})
			}
		}
	}
	keys = allKeys
	fmt.Printf("BOUNDED evaluations=%d distinct=%d exhaustive=true bound=%q\n", evals, len(seen),
		fmt.Sprintf("all sequences of up to %d operations (set with 2 values, delete, rest, merge with a 2-pair map, merge with the empty map, merge with a 5-pair map, range prefix) over %d keys of mixed types (int, float, string, bool, nil, array), starting from the empty map; crosses the 4-pair threshold in both directions; and every merge L + R of two maps over all subsets of the 8 mixed keys and of 9 numeric keys (integers and floats interleaved; 65536 + 262144 pairs)", maxOps, nk+1))
	if fails > 0 {
		t.Fatalf("%d failures", fails)
	}
}
