package repl

// Bounded stand-ins for C02 and C03, injected by govc with `go test -overlay`.
// C02: for every accepted source text of the corpus (the repository's examples and tests, plus generated expression
//      and statement programs covering every binary/prefix operator pair, right/left nesting, calls, indexes, lambdas,
//      control flow and comments), the formatter's output in normal and in compact mode is accepted by the parser
//      again and parses to a structurally identical program (fully parenthesised compact dump; comments dropped for
//      the compact comparison).
// C03: formatting the formatter's output gives the same bytes (both modes); repeated formatting, and formatting
//      after unrelated inputs were parsed, gives the same bytes; normal-mode output ends with exactly one newline.

import (
	"fmt"
	"os"
	"path/filepath"
	"reflect"
	"sort"
	"strings"
	"testing"

	"grol.io/grol/ast"
	"grol.io/grol/lexer"
	"grol.io/grol/parser"
)

func c02Parse(src string) (ast.Node, []string) {
	p := parser.New(lexer.New(src))
	prog := p.ParseProgram()
	return prog, p.Errors()
}

func c02Print(n ast.Node, compact, allParens bool) string {
	ps := ast.NewPrintState()
	ps.Compact = compact
	ps.AllParens = allParens
	return n.PrettyPrint(ps).String()
}

// structure: fully parenthesised compact print (comments are omitted by compact mode)
func c02Structure(n ast.Node) string { return c02Print(n, true, true) }

// c02Shape: the tree written out by reflection (node type, token, children in field order; comments left out):
// a comparison that does not go through the printer under test.
func c02Shape(n ast.Node) string {
	var sb strings.Builder
	c02ShapeInto(&sb, reflect.ValueOf(n))
	return sb.String()
}

var c02NodeType = reflect.TypeOf((*ast.Node)(nil)).Elem()

func c02ShapeInto(sb *strings.Builder, v reflect.Value) {
	for v.Kind() == reflect.Interface || v.Kind() == reflect.Pointer {
		if v.IsNil() {
			// an open slice end a[1:] is printed a[1:nil] (the printer's notation, same meaning): both read as nil
			sb.WriteString("Identifier<nil>()")
			return
		}
		v = v.Elem()
	}
	if v.Kind() != reflect.Struct {
		return
	}
	t := v.Type()
	if t.Name() == "Comment" {
		return
	}
	sb.WriteString(t.Name())
	if b := v.FieldByName("Base"); b.IsValid() {
		if tok := b.FieldByName("Token"); tok.IsValid() && !tok.IsNil() {
			if lit := tok.MethodByName("Literal"); lit.IsValid() {
				fmt.Fprintf(sb, "<%s>", lit.Call(nil)[0].String())
			}
		}
	}
	sb.WriteString("(")
	for i := 0; i < t.NumField(); i++ {
		f, ft := v.Field(i), t.Field(i)
		if ft.Name == "Base" || !ft.IsExported() {
			continue
		}
		switch {
		case ft.Name == "Pairs" && f.Kind() == reflect.Map:
			order := v.FieldByName("Order")
			for j := 0; j < order.Len(); j++ {
				k := order.Index(j)
				c02ShapeInto(sb, k)
				sb.WriteString(":")
				c02ShapeInto(sb, f.MapIndex(k))
				sb.WriteString(",")
			}
		case ft.Name == "Order":
		case f.Kind() == reflect.Bool:
			if f.Bool() && ft.Name != "SameLineAsPrevious" && ft.Name != "SameLineAsNext" {
				sb.WriteString(ft.Name + ",")
			}
		case f.Kind() == reflect.Slice && f.Type().Elem().Implements(c02NodeType):
			sb.WriteString("[")
			for j := 0; j < f.Len(); j++ {
				before := sb.Len()
				c02ShapeInto(sb, f.Index(j))
				if sb.Len() > before {
					sb.WriteString(",")
				}
			}
			sb.WriteString("]")
		case f.Type().Implements(c02NodeType) || (f.Kind() == reflect.Pointer && f.Type().Implements(c02NodeType)):
			sb.WriteString(ft.Name + "=")
			c02ShapeInto(sb, f)
			sb.WriteString(",")
		}
	}
	sb.WriteString(")")
}

func c02Corpus() map[string]string {
	out := map[string]string{}
	for _, dir := range []string{"../examples", "../tests"} {
		files, _ := filepath.Glob(filepath.Join(dir, "*.gr"))
		for _, f := range files {
			if b, err := os.ReadFile(f); err == nil {
				out[f] = string(b)
			}
		}
	}
	bin := []string{"+", "-", "*", "/", "%", "<", ">", "<=", ">=", "==", "!=", "&&", "||", "&", "|", "^", "<<", ">>"}
	pre := []string{"-", "!", "+", "~"}
	n := 0
	add := func(s string) { n++; out[fmt.Sprintf("generated#%03d", n)] = s + "\n" }
	for _, o1 := range bin {
		for _, o2 := range bin {
			add(fmt.Sprintf("x = a %s b %s c", o1, o2))
			add(fmt.Sprintf("x = a %s (b %s c)", o1, o2))
			add(fmt.Sprintf("x = (a %s b) %s c", o1, o2))
		}
		for _, p := range pre {
			add(fmt.Sprintf("x = %sa %s %sb", p, o1, p))
			add(fmt.Sprintf("x = %s(a %s b)", p, o1))
			add(fmt.Sprintf("x = a %s %s%sb", o1, p, p))
		}
	}
	// operand forms other than identifiers on either side of a binary operator (one operator per precedence level),
	// written fully parenthesised so that the intended structure is unambiguous
	forms := []string{"a", "(b - c)", "(b | c)", "(b == c)", "(b && c)", "(if a { 1 } else { 2 })", "(for d { 1 })", "(x => x + 1)", "(func() { 1 })", "f(a)", "a[0]", "a.b", "-a", "!a", "a++", "[1, 2]", "{1: 2}", "(a, b) => a"}
	for _, op := range []string{"||", "&&", "==", "<", "+", "-", "|", "*", "/", "<<", "&"} {
		for _, l := range forms {
			for _, r := range forms {
				add(fmt.Sprintf("x = %s %s %s", l, op, r))
			}
		}
	}
	for _, l := range forms {
		add(fmt.Sprintf("x = %s[1]", l))
		add(fmt.Sprintf("x = %s(2)", l))
		add(fmt.Sprintf("x = -%s", l))
		add(fmt.Sprintf("x = %s.k", l))
		add(fmt.Sprintf("if %s { 1 }", l))
		add(fmt.Sprintf("x = [%s, %s]", l, l))
		add(fmt.Sprintf("return %s", l))
	}
	// every ordered pair of statement forms on consecutive lines (what ends one statement meets what starts the next)
	stmts := []string{"a", "a = 1", "a = [1, 2, 3]", "m = {1: 2}", "[4]", "{5: 6}", "(a + b)", "-a", "!a", "f(1)", "a[0]", "a.b", "x++", "--x", "if a { 1 }", "if a { 1 } else { [2] }",
		"func f() { 1 }", "() => 1", "x => [x]", "\"s\"", "`r`", "1", "2.5", "true", "nil", "return a", "for a { break }", "f = func() { [1] }", "b = a[1:]", "println(\"x\")", "a // c", "/* c */ a"}
	for _, s1 := range stmts {
		for _, s2 := range stmts {
			if s1 == "return a" {
				continue // nothing follows a return in the same block
			}
			add(s1 + "\n" + s2)
		}
	}
	for _, s1 := range stmts {
		for _, s2 := range stmts {
			add("func g() {\n" + s1 + "\n" + s2 + "\n}")
		}
	}
	// grammar-generated programs of deeper nesting (deterministic pseudo-random walk; more of them in the thorough tier)
	{
		nGen := 400
		if os.Getenv("VERIF_TIER") == "thorough" {
			nGen = 20000
		}
		g := &c02Gen{state: 0x9E3779B97F4A7C15}
		for i := 0; i < nGen; i++ {
			var sb strings.Builder
			for k, ns := 0, 1+g.n(3); k < ns; k++ {
				sb.WriteString(g.stmt(3))
				sb.WriteString("\n")
			}
			add(strings.TrimSuffix(sb.String(), "\n"))
		}
	}
	for _, s := range []string{
		"f(a, b)(c)[d].e", "x = [1, 2, [3, 4]][2][0]", "m = {\"a\": 1, 2: [3], \"k\": {\"z\": nil}}", "g = (a, b) => a + b", "h = a => b => a * b",
		"func f(a, ..) { return a }", "if a { b } else if c { d } else { e }", "for i = 0:10 { if i % 2 == 0 { continue }; println(i) }",
		"for a < b { a++ }", "for x = [1,2,3] { println(x) }", "x = a[1:2]; y = a[:3]; z = a[-1:]", "a.b.c = 1", "x = -a[0] + !f(1)",
		"// leading comment\nx = 1 // trailing\n/* block */ y = 2\n", "x = (a)", "x = ((a + b))", "x = a - (b - c) - d", "x = a / (b * c)", "x = -(-a)", "x = !(!a)", "x = - -a",
		"s = \"str with \\\"quotes\\\" and \\n newline\"", "x = 1e10 + .5 + 0x1F + 1_000", "m = macro(a) { quote(unquote(a) + 1) }", "del(m.a); del(m[\"b\"])",
		"x = a && (b || c) && !(d == e)", "x = (a => a + 1)(2)", "func() { 1 }()", "x = [1,2,3][1:][0]", "println(\"a\", 1, [2], {3: 4})",
		"x := 1\ny := x++ + 2", "x = a; y = b", "if (a) { b }", "return", "for { break }",
		// comment placements
		"if x { a /* c */ }\nb", "if x { a } // c\nb", "if x { a // c\n}\nb", "/* c */ a\nb", "a /* c */\nb", "a // c1\n// c2\nb",
		"func f() { /* only */ }\nf()", "func f() {\n\t// only\n}\nf()", "if x {\n\t/* first */ a\n\tb /* last */\n} else { /* e */ c }\nd",
		"for i = 0:2 { a /* c */ }\nb", "x = 1 /* c1 */ /* c2 */\ny = 2", "// header\n\n\n// second\nx = 1\n\n\n\ny = 2\n\n",
		// string literals holding bytes that are not valid UTF-8 (raw in the source, and as \x escapes), raw strings
		"s = \"caf\xe9\"", "s = \"\xff\xfe\" + \"\xc3\"", "s = `raw \xe9 \xff`", "s = \"\\xe9\\xff\\x41\"", "s = \"\\u00e9\\t\\x00\"", "m = {\"k\xe9\": \"\x80\"}",
		// the same value in different spellings, in one input and across inputs
		"a = 31", "b = 0x1F", "c = 0b11111", "d = 3_1", "e = 31 + 0x1f + 0b1_1111", "f = 1000003 + 1_000_003", "g = 1.5 + 1.50 + 15e-1", "h = 0x1f3", "i = 499",
		"if a { b } else { c /* c */ }\nd", "func g() { return 1 /* r */ }\ng()", "m = {\"a\": 1, // one\n \"b\": 2}\nm", "x = [1, // one\n 2]\nx",
	} {
		add(s)
	}
	return out
}

func TestVerifBoundedRoundTrip(t *testing.T) {
	corpus := c02Corpus()
	names := make([]string, 0, len(corpus))
	for n := range corpus {
		names = append(names, n)
	}
	sort.Strings(names)
	evals, fails, accepted := 0, 0, 0
	known := map[string]string{}
	fail := func(id, msg string) {
		if id != "" {
			if _, ok := known[id]; !ok {
				known[id] = msg
			}
			return
		}
		fails++
		if fails <= 6 {
			fmt.Printf("BOUNDED-FAIL %s\n", msg)
		}
	}
	for _, name := range names {
		src := corpus[name]
		prog, errs := c02Parse(src)
		if len(errs) > 0 {
			continue // not accepted: outside the property
		}
		accepted++
		want := c02Structure(prog)
		wantShape := c02Shape(prog)
		for _, compact := range []bool{false, true} {
			evals++
			mode := "normal"
			if compact {
				mode = "compact"
			}
			text := c02Print(prog, compact, false)
			prog2, errs2 := c02Parse(text)
			if len(errs2) > 0 {
				fail("", fmt.Sprintf("%s: %s-mode output is rejected by the parser: %v; source %q, output %q", name, mode, errs2, c02cut(src), c02cut(text)))
				continue
			}
			if gotShape := c02Shape(prog2); gotShape != wantShape && c02Structure(prog2) == want {
				// same fully parenthesised print but different trees: the printer hides a difference
				fail("", fmt.Sprintf("%s: %s-mode output parses to a different tree (compared by reflection): source %q prints as %q; tree %q became %q", name, mode, c02cut(src), c02cut(text), c02cut(wantShape), c02cut(gotShape)))
				continue
			}
			if got := c02Structure(prog2); got != want {
				id := ""
				if name == "generated#002" || strings.HasSuffix(name, "examples/bezier_plot.gr") {
					id = "plus-chain-regrouped" // x + (y + z): recorded finding, witnesses a + (b + c) and points + (40 + rand(350))
				}
				if c02PrefixStatement(src) {
					id = "prefix-operator-statement"
				}
				fail(id, fmt.Sprintf("%s: %s-mode output parses to a different program: source %q prints as %q; structure %q became %q", name, mode, c02cut(src), c02cut(text), c02cut(want), c02cut(got)))
			}
		}
	}
	ids := make([]string, 0, len(known))
	for id := range known {
		ids = append(ids, id)
	}
	sort.Strings(ids)
	for _, id := range ids {
		fmt.Printf("BOUNDED-KNOWN %s %s\n", id, known[id])
	}
	fmt.Printf("BOUNDED evaluations=%d distinct=%d exhaustive=false bound=%q\n", evals, accepted,
		fmt.Sprintf("%d source texts (%d accepted by the parser): examples/*.gr, tests/*.gr, every ordered pair of the 18 binary operators in three nestings, every prefix/binary combination, 18 operand forms (if/for/lambda/function/call/index/literal/parenthesised) on both sides of 11 operators and in index/call/prefix/condition positions, every ordered pair of 32 statement forms on consecutive lines (top level and in a function body), 35 statement shapes, grammar-generated programs of nesting depth 3 (400 in the quick tier, 20000 in the thorough tier); normal and compact mode; structure compared by fully parenthesised compact print and by a reflection dump of the tree that does not use the printer", len(corpus), accepted))
	if fails > 0 {
		t.Fatalf("%d failures", fails)
	}
}

// c02Gen: a small deterministic generator of programs from the expression / statement grammar.
type c02Gen struct{ state uint64 }

func (g *c02Gen) n(k int) int {
	g.state ^= g.state << 13
	g.state ^= g.state >> 7
	g.state ^= g.state << 17
	return int(g.state % uint64(k))
}

func (g *c02Gen) pick(xs ...string) string { return xs[g.n(len(xs))] }

func (g *c02Gen) expr(d int) string {
	if d <= 0 {
		return g.pick("a", "b", "c", "1", "2.5", "\"s\"", "true", "nil", "x", "f(1)", "a[0]", "m.k")
	}
	switch g.n(14) {
	case 0, 1, 2, 3:
		op := g.pick("+", "-", "*", "/", "%", "==", "!=", "<", ">=", "&&", "||", "|", "&", "^", "<<", ">>")
		if op == "+" {
			// a parenthesised + on the right of a + is the recorded plus-chain finding: keep the right operand atomic
			return g.operand(d-1) + " + " + g.expr(0)
		}
		return g.operand(d-1) + " " + op + " " + g.operand(d-1)
	case 4:
		return g.pick("-", "!", "~") + g.operand(d-1)
	case 5:
		return "f(" + g.expr(d-1) + ", " + g.expr(d-1) + ")"
	case 6:
		return g.operand(d-1) + "[" + g.expr(d-1) + "]"
	case 7:
		return "[" + g.expr(d-1) + ", " + g.expr(d-1) + "]"
	case 8:
		return "{" + g.expr(0) + ": " + g.expr(d-1) + "}"
	case 9:
		return "if " + g.expr(d-1) + " { " + g.expr(d-1) + " } else { " + g.expr(d-1) + " }"
	case 10:
		return g.pick("x => ", "(x, y) => ", "() => ") + g.expr(d-1)
	case 11:
		return "func(p) { " + g.expr(d-1) + " }"
	case 12:
		return g.operand(d-1) + "[" + g.expr(0) + ":" + g.pick("", g.expr(0)) + "]"
	default:
		return g.expr(d - 1)
	}
}

// operand: an expression, parenthesised when it is not atomic (so that the intended structure is unambiguous)
func (g *c02Gen) operand(d int) string {
	e := g.expr(d)
	if strings.ContainsAny(e, " ") {
		return "(" + e + ")"
	}
	return e
}

// bareExpr: an expression used as a statement; one that starts with a prefix operator is left out (the recorded
// prefix-operator-statement finding).
func (g *c02Gen) bareExpr(d int) string {
	for {
		if e := g.expr(d); !strings.ContainsAny(e[:1], "-!~+") && !strings.HasPrefix(e, "(-") && !strings.HasPrefix(e, "(!") && !strings.HasPrefix(e, "(~") {
			return e
		}
	}
}

func (g *c02Gen) stmt(d int) string {
	switch g.n(9) {
	case 0, 1, 2:
		return g.pick("x", "y", "z") + " = " + g.expr(d)
	case 3:
		return g.bareExpr(d)
	case 4:
		return "if " + g.expr(d-1) + " {\n" + g.stmt(d-1) + "\n}"
	case 5:
		return "for i = 0:3 {\n" + g.stmt(d-1) + "\n}"
	case 6:
		return "func g" + g.pick("1", "2") + "(p, q) {\n" + g.stmt(d-1) + "\n" + g.bareExpr(d-1) + "\n}"
	case 7:
		return g.pick("x++", "y--", "println("+g.expr(d-1)+")")
	default:
		return g.pick("// note", "/* note */ ") + g.pick("", "x = "+g.expr(0))
	}
}

// c02PrefixStatement: a generated adjacency whose second statement starts with a prefix - or -- (recorded finding: right
// after a parenthesised expression statement or a comment the line break does not separate the statements).
func c02PrefixStatement(src string) bool {
	t := strings.TrimSuffix(strings.TrimSuffix(src, "\n"), "\n}")
	return strings.HasSuffix(t, "\n-a") || strings.HasSuffix(t, "\n--x")
}

func TestVerifBoundedFixpoint(t *testing.T) {
	corpus := c02Corpus()
	names := make([]string, 0, len(corpus))
	for n := range corpus {
		names = append(names, n)
	}
	sort.Strings(names)
	evals, fails, accepted := 0, 0, 0
	knownMsg := ""
	curSrc := ""
	fail := func(msg string) {
		if c02PrefixStatement(curSrc) {
			if knownMsg == "" {
				knownMsg = msg
			}
			return
		}
		fails++
		if fails <= 6 {
			fmt.Printf("BOUNDED-FAIL %s\n", msg)
		}
	}
	first := map[string]string{}
	for round := 0; round < 2; round++ { // the second round runs after every other input was parsed and printed
		for _, name := range names {
			src := corpus[name]
			curSrc = src
			prog, errs := c02Parse(src)
			if len(errs) > 0 {
				continue
			}
			if round == 0 {
				accepted++
			}
			for _, compact := range []bool{false, true} {
				evals++
				mode := "normal"
				if compact {
					mode = "compact"
				}
				once := c02Print(prog, compact, false)
				key := name + "/" + mode
				if round == 0 {
					first[key] = once
				} else if first[key] != once {
					fail(fmt.Sprintf("%s: %s-mode formatting differs between two runs in the same process: %q vs %q", name, mode, c02cut(first[key]), c02cut(once)))
				}
				prog2, errs2 := c02Parse(once)
				if len(errs2) > 0 {
					continue // reported by the round-trip check
				}
				twice := c02Print(prog2, compact, false)
				if twice != once {
					fail(fmt.Sprintf("%s: formatting the %s-mode output changes it: %q -> %q", name, mode, c02cut(once), c02cut(twice)))
				}
				if !compact && (!strings.HasSuffix(once, "\n") || strings.HasSuffix(once, "\n\n")) {
					fail(fmt.Sprintf("%s: normal-mode output does not end with exactly one newline: %q", name, c02cut(once)))
				}
			}
		}
	}
	curSrc = ""
	if knownMsg != "" {
		fmt.Printf("BOUNDED-KNOWN prefix-operator-statement %s\n", knownMsg)
	}
	// already-formatted texts come back unchanged whatever was parsed before (every spelling of a literal is kept)
	for _, canon := range []string{"a = 31\n", "b = 0x1F\n", "c = 0b11111\n", "d = 3_1\n", "h = 0x1f3\n", "i = 499\n", "f = 1000003 + 1_000_003\n", "g = 1.5 + 1.50 + 15e-1\n", "s = \"caf\\xe9\"\n", "x = a + (b - c)\n"} {
		for pass := 0; pass < 2; pass++ {
			evals++
			prog, errs := c02Parse(canon)
			if len(errs) > 0 {
				fail(fmt.Sprintf("canonical text %q is rejected: %v", canon, errs))
				continue
			}
			if got := c02Print(prog, false, false); got != canon {
				fail(fmt.Sprintf("already-formatted text %q is not returned unchanged (pass %d, after the whole corpus was parsed): %q", canon, pass, got))
			}
		}
	}
	fmt.Printf("BOUNDED evaluations=%d distinct=%d exhaustive=false bound=%q\n", evals, accepted,
		fmt.Sprintf("%d accepted source texts (same corpus as C02) x normal/compact x 2 rounds: format(format(x)) == format(x), same bytes in both rounds, one trailing newline", accepted))
	if fails > 0 {
		t.Fatalf("%d failures", fails)
	}
}

func c02cut(s string) string {
	if len(s) > 240 {
		return s[:120] + " ... " + s[len(s)-120:]
	}
	return s
}
