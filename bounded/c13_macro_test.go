package repl

// Bounded stand-in for C13, injected by govc with `go test -overlay`: macro templates built from the expression
// grammar with 0..3 parameters, each used 0..3 times, are applied to argument expressions (with side effects, with
// operators that bind looser than the template context) at top level, inside functions, loops and other macro
// arguments, once or several times; the expanded program must print (normal and compact mode) and evaluate exactly
// like the hand-substituted program, the arguments must not be evaluated during expansion, and the definition must
// expand the same way at every use.

import (
	"context"
	"fmt"
	"strings"
	"testing"

	"grol.io/grol/ast"
	"grol.io/grol/eval"
	"grol.io/grol/lexer"
	"grol.io/grol/parser"
)

type c13Template struct {
	params []string
	body   string // template text with $0 $1 $2 for unquote(param)
}

func (t c13Template) macroSrc(name string) string {
	b := t.body
	for i, p := range t.params {
		b = strings.ReplaceAll(b, fmt.Sprintf("$%d", i), "unquote("+p+")")
	}
	return fmt.Sprintf("%s = macro(%s) { quote(%s) }\n", name, strings.Join(t.params, ", "), b)
}

// substitute builds the hand-substituted expression: every $i replaced by the parenthesised argument text.
func (t c13Template) substitute(args []string) string {
	b := t.body
	for i := range t.params {
		b = strings.ReplaceAll(b, fmt.Sprintf("$%d", i), "("+args[i]+")")
	}
	return "(" + b + ")"
}

func c13Expand(src string) (printed string, out string, errs []string) {
	defer func() {
		if r := recover(); r != nil {
			errs = append(errs, fmt.Sprintf("panic while expanding / evaluating: %v", r))
		}
	}()
	s := eval.NewState()
	o := &strings.Builder{}
	s.Out = o
	s.LogOut = o
	s.NoLog = true
	p := parser.New(lexer.New(src))
	prog := p.ParseProgram()
	if len(p.Errors()) > 0 {
		return "", "", p.Errors()
	}
	s.DefineMacros(prog)
	expanded := s.ExpandMacros(prog)
	if o.Len() > 0 {
		errs = append(errs, "output during expansion: "+o.String())
	}
	ps := ast.NewPrintState()
	ps.Compact = true
	printed = expanded.PrettyPrint(ps).String()
	res := s.Eval(expanded)
	out = o.String() + "=> " + res.Inspect()
	return printed, out, errs
}

func c13Plain(src string) (printed string, out string, errs []string) {
	s := eval.NewState()
	o := &strings.Builder{}
	s.Out = o
	s.LogOut = o
	s.NoLog = true
	p := parser.New(lexer.New(src))
	prog := p.ParseProgram()
	if len(p.Errors()) > 0 {
		return "", "", p.Errors()
	}
	ps := ast.NewPrintState()
	ps.Compact = true
	printed = prog.PrettyPrint(ps).String()
	res := s.Eval(prog)
	out = o.String() + "=> " + res.Inspect()
	return printed, out, errs
}

// c13Session feeds the inputs one after the other to one interpreter state through repl.EvalOne and returns what the
// programs printed (errors included).
func c13Session(inputs []string) string {
	s := eval.NewState()
	out := &strings.Builder{}
	s.Out = out
	s.LogOut = out
	s.NoLog = true
	o := Options{All: true, ShowEval: true, NoColor: true, Compact: true}
	res := ""
	for _, in := range inputs {
		results := &strings.Builder{}
		_, panicked, errs, _ := EvalOne(context.Background(), s, in, results, o)
		if panicked || len(errs) > 0 {
			res += fmt.Sprintf("[errors %v panic %v]", errs, panicked)
		}
	}
	return out.String() + res
}

func TestVerifBoundedMacros(t *testing.T) {
	templates := []c13Template{
		{nil, "1 + 2"},
		{[]string{"a"}, "$0"},
		{[]string{"a"}, "$0 * $0"},
		{[]string{"a"}, "-$0"},
		{[]string{"a"}, "$0 * 2 + $0 * 3 - $0"},
		{[]string{"a", "b"}, "$0 - $1"},
		{[]string{"a", "b"}, "$1 * $0"},
		{[]string{"a", "b"}, "$0 * $1 + $1"},
		{[]string{"a", "b"}, "if $0 > $1 { $0 } else { $1 }"},
		{[]string{"a", "b"}, "[$0, $1, $0]"},
		{[]string{"a", "b"}, "$0"}, // second parameter unused: its argument must not be evaluated at all
		{[]string{"a", "b", "c"}, "$0 + $1 * $2"},
		{[]string{"a", "b", "c"}, "($0 - $1) * ($2 - $1)"},
		{[]string{"a", "b", "c"}, "len([$2, $1]) + $0"},
		{[]string{"X"}, "$0 + 1"}, // constant-style parameter names
		{[]string{"A", "COND"}, "if $1 { $0 } else { -$0 }"},
		{[]string{"x"}, "$0 * 2"},    // parameter named like a global of the program
		{[]string{"a"}, "quote($0)"}, // a quote inside the template: its unquote is substituted too
		{[]string{"a", "b"}, "[quote($0 + 1), $1]"},
		{[]string{"a"}, "quote(quote($0))"},
	}
	argsPool := []string{"1", "x", "1 + 2", "x - 1", "2 * 3", "f(2)", "x == 1 || x > 2", "-x", "g(x) + 1", "[1,2][0]", "error(\"boom\")", "catch(error(\"c\")).err"}
	prelude := "x = 3\nfunc f(n) { println(\"f called\", n); n * 10 }\nfunc g(n) { n + 100 }\n"
	contexts := []struct{ name, before, after string }{
		{"toplevel", "println(", ")\n"},
		{"in-function", "func h() { ", " }\nprintln(h())\n"},
		{"in-loop", "for i = 0:2 { println(", ") }\n"},
		{"twice", "println(", " , @@)\n"}, // @@ replaced by a second, different use of the same macro
		{"in-expression", "println(1 + ", " * 2)\n"},
		{"twice-same-shape", "println(", " , @S)\n"}, // @S: a second use whose arguments have the same outermost operators but different operands
		{"thrice", "println(", " , @S, @@)\n"},
		{"nested-in-macro-argument", "println(w(", "))\n"}, // w is a second macro (below); hand substitution: its template around the substituted call
		{"nested-twice", "println(w(w(", ")))\n"},
	}
	wrapDef := "w = macro(z) { quote([unquote(z), 7]) }\n"
	wrapSub := func(n int, inner string) string { // w(...) applied n times by hand
		for i := 0; i < n; i++ {
			inner = "([(" + inner + "), 7])"
		}
		return inner
	}
	// an argument of the same shape (same outermost token) with different operands
	sameShape := map[string]string{"1": "2", "x": "x", "1 + 2": "3 + 4", "x - 1": "7 - x", "2 * 3": "x * 5", "f(2)": "g(7)", "x == 1 || x > 2": "x > 5 || x < 0", "-x": "-(x + 1)",
		"g(x) + 1": "2 + g(1)", "[1,2][0]": "[7,8][1]", "error(\"boom\")": "error(\"bang\")", "catch(error(\"c\")).err": "catch(error(\"d\")).err"}
	evals, fails := 0, 0
	fail := func(msg string) {
		fails++
		if fails <= 5 {
			fmt.Printf("BOUNDED-FAIL %s\n", msg)
		}
	}
	for ti, tpl := range templates {
		n := len(tpl.params)
		// choose argument tuples: rotate through the pool deterministically
		for rot := 0; rot < len(argsPool); rot++ {
			args := make([]string, n)
			args2 := make([]string, n)
			for i := 0; i < n; i++ {
				args[i] = argsPool[(rot+i*3)%len(argsPool)]
				args2[i] = argsPool[(rot+i*3+5)%len(argsPool)]
			}
			args3 := make([]string, n)
			for i := range args {
				args3[i] = sameShape[args[i]]
			}
			call := "m(" + strings.Join(args, ", ") + ")"
			call2 := "m(" + strings.Join(args2, ", ") + ")"
			call3 := "m(" + strings.Join(args3, ", ") + ")"
			sub, sub2, sub3 := tpl.substitute(args), tpl.substitute(args2), tpl.substitute(args3)
			for _, cx := range contexts {
				withMacro := prelude + tpl.macroSrc("m") + wrapDef + cx.before + call + strings.ReplaceAll(strings.ReplaceAll(cx.after, "@@", call2), "@S", call3)
				byHand := prelude + cx.before + sub + strings.ReplaceAll(strings.ReplaceAll(cx.after, "@@", sub2), "@S", sub3)
				switch cx.name {
				case "nested-in-macro-argument":
					byHand = prelude + "println(" + wrapSub(1, sub) + ")\n"
				case "nested-twice":
					byHand = prelude + "println(" + wrapSub(2, sub) + ")\n"
				}
				evals++
				p1, o1, e1 := c13Expand(withMacro)
				p2, o2, e2 := c13Plain(byHand)
				if len(e2) > 0 {
					continue // the hand-substituted text is not a valid program (e.g. `if` in operand position): outside the property
				}
				desc := fmt.Sprintf("template #%d %q with arguments %v in context %s", ti, tpl.body, args, cx.name)
				switch {
				case len(e1) > 0:
					fail(fmt.Sprintf("%s: expansion reports %v", desc, e1))
				case o1 != o2:
					fail(fmt.Sprintf("%s: expanded program gives %q, hand-substituted gives %q", desc, o1, o2))
				case p1 != p2:
					// printed forms may differ only by redundant parentheses of the hand substitution: compare after re-parsing both
					r1, _, _ := c13Plain(p1)
					r2, _, _ := c13Plain(p2)
					if r1 != r2 {
						fail(fmt.Sprintf("%s: expanded program prints %q, hand-substituted prints %q (re-parsed: %q vs %q)", desc, p1, p2, r1, r2))
					}
				}
			}
		}
	}
	// the definition is not altered by its uses: the same call expands identically before and after 50 other uses
	{
		tpl := templates[7]
		src := prelude + tpl.macroSrc("m") + "println(m(x, 2))\n"
		for i := 0; i < 50; i++ {
			src += fmt.Sprintf("println(m(%d, x + %d))\n", i, i)
		}
		src += "println(m(x, 2))\n"
		evals++
		p, _, errs := c13Expand(src)
		want, _, _ := c13Plain("println(" + tpl.substitute([]string{"x", "2"}) + ")\n")
		want = strings.TrimSpace(want)
		if len(errs) > 0 || strings.Count(p, want) != 2 {
			fail(fmt.Sprintf("the call m(x, 2) before and after 50 other uses should both expand to %q; expansion is %q (errors %v)", want, p, errs))
		}
	}
	// several inputs of one session, through the REPL's own evaluation path: the macro is defined in one input and used
	// in later ones (alone, nested, inside a function defined later)
	{
		tpl := templates[7] // $0 * $1 + $1
		inputs := []string{prelude, tpl.macroSrc("m"), wrapDef, "println(m(x, 2))\n", "func h(n) { m(n, n + 1) }\n", "println(h(5))\n", "println(w(m(1 + 2, x)))\n", "x = x + 1\n", "println(m(x, x))\n"}
		whole := prelude + "println(" + tpl.substitute([]string{"x", "2"}) + ")\nfunc h(n) { " + tpl.substitute([]string{"n", "n + 1"}) + " }\nprintln(h(5))\nprintln(" + wrapSub(1, tpl.substitute([]string{"1 + 2", "x"})) + ")\nx = x + 1\nprintln(" + tpl.substitute([]string{"x", "x"}) + ")\n"
		evals++
		got := c13Session(inputs)
		want := c13Session([]string{whole})
		if got != want {
			fail(fmt.Sprintf("macro defined in one input and used in later inputs of the session prints %q, the hand-substituted script prints %q", got, want))
		}
	}
	_ = context.Background
	fmt.Printf("BOUNDED evaluations=%d distinct=%d exhaustive=false bound=%q\n", evals, evals,
		fmt.Sprintf("%d templates (0..3 parameters, each used 0..3 times) x %d argument tuples from a pool of %d expressions (calls with side effects, looser-binding operators, error calls) x %d contexts (top level, function, loop, two and three uses incl. arguments of the same shape, operand position, inside the argument of another macro once and twice) and a 9-input session through repl.EvalOne: ExpandMacros output printed, re-parsed and evaluated against the hand-substituted program", len(templates), len(argsPool), len(argsPool), len(contexts)))
	if fails > 0 {
		t.Fatalf("%d failures", fails)
	}
}
