package trie

// Bounded stand-in for C20 (set-level contract of the trie), injected by govc with `go test -overlay`.
// Contract: after inserting the words of S (in any order, with repeats), Contains(w) <=> w in S for every
// non-empty w; PrefixAll(p) returns exactly the words of S that start with p, each once, in byte order, and the
// reported length is the length of their longest common prefix (0 when there is none).

import (
	"fmt"
	"os"
	"sort"
	"strings"
	"testing"
)

func lcpLen(ws []string) int {
	if len(ws) == 0 {
		return 0
	}
	p := ws[0]
	for _, w := range ws[1:] {
		n := 0
		for n < len(p) && n < len(w) && p[n] == w[n] {
			n++
		}
		p = p[:n]
	}
	return len(p)
}

func TestVerifBoundedTrieSet(t *testing.T) {
	alphabet := []byte{'a', 'b'}
	maxLen, maxSet := 3, 3
	extra := []string{"\x00", "\xff", "a\x00", "\xffb", "a\xff", "\xff\xff\xff", "\x00\x00", "ab\x00"}
	if os.Getenv("VERIF_TIER") == "thorough" {
		alphabet = []byte{'a', 'b', 0x00, 0xFF}
		maxLen, maxSet = 3, 3
		extra = nil
	}
	var words []string
	var gen func(prefix string, n int)
	gen = func(prefix string, n int) {
		if prefix != "" {
			words = append(words, prefix)
		}
		if n == 0 {
			return
		}
		for _, c := range alphabet {
			gen(prefix+string([]byte{c}), n-1)
		}
	}
	gen("", maxLen)
	words = append(words, extra...)
	queries := append([]string{""}, words...)
	// one longer query
	queries = append(queries, "abab", "\xff\xff\xff\xff")
	evals, fails := 0, 0
	distinct := map[string]bool{}
	report := func(format string, a ...any) {
		fails++
		if fails <= 5 {
			fmt.Printf("BOUNDED-FAIL "+format+"\n", a...)
		}
	}
	var seqs func(cur []string)
	check := func(seq []string) {
		tr := NewTrie()
		set := map[string]bool{}
		for _, w := range seq {
			tr.Insert(w)
			set[w] = true
		}
		key := fmt.Sprintf("%q", seq)
		distinct[key] = true
		for _, q := range queries {
			evals++
			if q != "" {
				if got := tr.Contains(q); got != set[q] {
					report("insert order %q: Contains(%q)=%v, want %v", seq, q, got, set[q])
				}
			}
			var want []string
			for w := range set {
				if strings.HasPrefix(w, q) {
					want = append(want, w)
				}
			}
			sort.Strings(want)
			n, got := tr.PrefixAll(q)
			if fmt.Sprintf("%q", got) != fmt.Sprintf("%q", want) && !(len(got) == 0 && len(want) == 0) {
				report("insert order %q: PrefixAll(%q) words=%q, want %q", seq, q, got, want)
			}
			if len(want) > 0 && n != lcpLen(want) {
				report("insert order %q: PrefixAll(%q) length=%d, want %d (lcp of %q)", seq, q, n, lcpLen(want), want)
			}
		}
	}
	seqs = func(cur []string) {
		if len(cur) > 0 {
			check(cur)
		}
		if len(cur) == maxSet {
			return
		}
		for _, w := range words {
			seqs(append(append([]string{}, cur...), w))
		}
	}
	seqs(nil)
	fmt.Printf("BOUNDED evaluations=%d distinct=%d exhaustive=true bound=%q\n", evals, len(distinct),
		fmt.Sprintf("all insertion sequences (with repeats) of length 1..%d over %d words (all words of length 1..%d over %q plus %q); %d query prefixes", maxSet, len(words), maxLen, alphabet, extra, len(queries)))
	if fails > 0 {
		t.Fatalf("%d failures", fails)
	}
}
