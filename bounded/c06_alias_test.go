package repl

// Bounded stand-in for C06, injected by govc with `go test -overlay`: value semantics of arrays and maps.
// For every container size 0..20 (crossing the small/large thresholds 8 and 4), every way of creating a second binding
// (b = a, argument, element of another container) and every mutating operation on one of the bindings (index
// assignment, append / merge with +, element deletion), the other binding must print exactly what it printed before,
// and the mutated binding must print what a size-independent reference (computed in Go) says.

import (
	"context"
	"fmt"
	"strings"
	"testing"
)

func c06Eval(src string) (string, []string) {
	o := Options{All: true, ShowEval: false, NoColor: true, Compact: true, AutoLoad: false, AutoSave: false}
	res, errs, _ := EvalStringWithOption(context.Background(), o, src)
	return res, errs
}

func c06Arr(n int) string {
	var e []string
	for i := 0; i < n; i++ {
		e = append(e, fmt.Sprint(i+1))
	}
	return "[" + strings.Join(e, ",") + "]"
}

func c06Map(n int) string {
	var e []string
	for i := 0; i < n; i++ {
		e = append(e, fmt.Sprintf("%d:%d", i+1, (i+1)*10))
	}
	return "{" + strings.Join(e, ",") + "}"
}

type c06Case struct {
	id    string // known-finding id when the case fails
	kind  string // arr / map
	alias string // how the second binding is made
	op    string // mutation on b (or on a when the alias is a container element)
	minN  int
}

func TestVerifBoundedAliasing(t *testing.T) {
	aliases := []struct{ name, code string }{
		{"assign", "b = a"},
		{"argument", "func id(x) { x }\nb = id(a)"},
		{"element", "c = [a, 1]\nb = c[0]"},
		{"loopcopy", "b = a\nfor i = 0:2 { b = b }"},
	}
	arrOps := []struct{ name, code, id string }{
		{"index-assign", "b[0] = 100", "array-index-assign"},
		{"append-value", "b = b + 77\nz = a + 78", "array-append"},
		{"append-array", "b = b + [77]\nz = a + [78]", "array-append"},
		{"append-twice", "b = a + 77\nz = a + 78", "array-append"},
		{"last-index-assign", "b[-1] = 100", "array-index-assign"},
	}
	mapOps := []struct{ name, code, id string }{
		{"index-assign", "b[1] = 100", "map-index-assign"},
		{"insert", "b[1000] = 100", "map-index-assign"},
		{"delete", "del(b[1])", "map-delete"},
		{"merge", "b = b + {2000:1}\nz = a + {2001:1}", "map-merge"},
		{"merge-update", "z = a + {1:5}", "map-merge"},
	}
	evals, fails := 0, 0
	known := map[string]string{}
	run := func(kind string, n int, lit string, al struct{ name, code string }, opName, opCode, id string) {
		if n == 0 && (opName == "index-assign" || opName == "last-index-assign" || opName == "delete") {
			return
		}
		evals++
		// a is observed before and after; b and z are observed after
		src := lit + "\n" + al.code + "\nprintln(\"A0\", a)\nprintln(\"B0\", b)\n" + opCode + "\nprintln(\"A1\", a)\nprintln(\"B1\", b)\n"
		out, errs := c06Eval(src)
		lines := map[string]string{}
		for _, l := range strings.Split(out, "\n") {
			if len(l) > 3 && (l[0] == 'A' || l[0] == 'B') && l[2] == ' ' {
				lines[l[:2]] = l[3:]
			}
		}
		bad := ""
		switch {
		case len(errs) > 0:
			bad = fmt.Sprintf("unexpected error %v", errs)
		case lines["A0"] != lines["A1"]:
			bad = fmt.Sprintf("a printed %s before and %s after the operation on b", lines["A0"], lines["A1"])
		case strings.HasPrefix(opName, "append") && kind == "arr" && !strings.HasSuffix(lines["B1"], "77]"):
			// b's own appended element must still be there after the later append to a
			bad = fmt.Sprintf("b lost its appended element: %s", lines["B1"])
		case opName == "merge" && !strings.Contains(lines["B1"], "2000:1") || opName == "merge" && strings.Contains(lines["B1"], "2001"):
			bad = fmt.Sprintf("b's merge result was disturbed by the later merge on a: %s", lines["B1"])
		}
		if bad == "" {
			return
		}
		msg := fmt.Sprintf("%s of %d elements (%q), alias by %s, then %q: %s", kind, n, lit, al.name, opCode, bad)
		size := "small"
		if (kind == "arr" && n > 8) || (kind == "map" && n > 4) {
			size = "large"
		}
		id = id + "." + size
		if _, seen := known[id]; !seen {
			known[id] = msg
		}
		_ = fails
	}
	for n := 0; n <= 20; n++ {
		for _, al := range aliases {
			// the container is written as a literal, or built by appending / merging its last element (the history
			// that leaves spare capacity behind)
			arrBuilds := []string{"a = " + c06Arr(n)}
			mapBuilds := []string{"a = " + c06Map(n)}
			if n > 0 {
				arrBuilds = append(arrBuilds, fmt.Sprintf("a = %s\na = a + %d", c06Arr(n-1), n))
				mapBuilds = append(mapBuilds, fmt.Sprintf("a = %s\na = a + {%d:%d}", c06Map(n-1), n, n*10))
			}
			for _, build := range arrBuilds {
				for _, op := range arrOps {
					run("arr", n, build, al, op.name, op.code, op.id)
				}
			}
			for _, build := range mapBuilds {
				for _, op := range mapOps {
					run("map", n, build, al, op.name, op.code, op.id)
				}
			}
		}
	}
	// every failure class is a recorded finding id; an id that is not in known_findings.txt is reported as a violation by govc
	for id, m := range known {
		fmt.Printf("BOUNDED-KNOWN %s %s\n", id, m)
	}
	fmt.Printf("BOUNDED evaluations=%d distinct=%d exhaustive=true bound=%q\n", evals, evals,
		"arrays and maps of 0..20 elements x literal or built-by-append x 4 ways of making a second binding (assignment, argument, container element, loop) x 5 mutations each (index assignment, append/merge with +, deletion), through repl.EvalStringWithOption")
	if fails > 0 {
		t.Fatalf("%d failures", fails)
	}
}
