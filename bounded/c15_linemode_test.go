package repl

// Bounded stand-in for the parser / session part of C15, injected by govc with `go test -overlay`.
//  (1) complete programs (the repository's examples and tests plus generated ones) parse to the same tree, printed in
//      normal and compact mode, with lexer.New and lexer.NewLineMode;
//  (2) every prefix of those programs that ends at a token boundary inside an unclosed ( [ { or right after a binary
//      operator makes the line-mode parser ask for more input and report no error; prefixes ending inside a string
//      or block comment likewise;
//  (3) error-free scripts fed one top-level statement at a time to a persistent session print what the whole script
//      prints and leave the same globals.

import (
	"context"
	"fmt"
	"os"
	"path/filepath"
	"sort"
	"strings"
	"testing"

	"grol.io/grol/ast"
	"grol.io/grol/eval"
	"grol.io/grol/lexer"
	"grol.io/grol/parser"
	"grol.io/grol/token"
)

func c15Parse(src string, line bool) (tree string, errs []string, cont bool, prog ast.Node) {
	var l *lexer.Lexer
	if line {
		l = lexer.NewLineMode(src)
	} else {
		l = lexer.New(src)
	}
	p := parser.New(l)
	pr := p.ParseProgram()
	errs = p.Errors()
	cont = p.ContinuationNeeded()
	if len(errs) == 0 && !cont {
		ps := ast.NewPrintState()
		long := pr.PrettyPrint(ps).String()
		ps2 := ast.NewPrintState()
		ps2.Compact = true
		tree = long + "\n--compact--\n" + pr.PrettyPrint(ps2).String()
	}
	return tree, errs, cont, pr
}

func c15Corpus() map[string]string {
	out := map[string]string{}
	for _, dir := range []string{"../examples", "../tests"} {
		files, _ := filepath.Glob(filepath.Join(dir, "*.gr"))
		for _, f := range files {
			b, err := os.ReadFile(f)
			if err == nil {
				out[f] = string(b)
			}
		}
	}
	gen := []string{
		"a = 1 + 2 * 3\nprintln(a)\n",
		"func f(a, b) {\n  if a > b {\n    return a\n  } else {\n    return b\n  }\n}\nprintln(f(1,2))\n",
		"m = {\"a\": [1, 2, {\"b\": 3}], 4: 5}\nprintln(m.a[2].b)\n",
		"x = [1,\n 2,\n 3]\nfor i = 0:3 { println(x[i]) }\n",
		"s = \"multi word string\" /* a block\ncomment */ + \"x\" // trailing\nprintln(s)\n",
		"f = (a, b) => a * b\nprintln(f(3, 4))\n",
		"y = -3; z = !true; w = y ** 2 % 5 << 1 | 3 & 7 ^ 1\nprintln(y, z, w)\n",
		"func fact(n) { if n <= 1 { 1 } else { n * fact(n - 1) } }\nprintln(fact(5))\n",
		"macro(x) { quote(unquote(x) + 1) }\n",
		"a = [1,2,3][1:2]; b = a + [4]; c = len(b) == 2 && true || false\nprintln(a, b, c)\n",
		// state carried from one statement to the next: macros defined before use, functions, closures, counters
		"m = macro(a, b) { quote(unquote(a) * unquote(b) + 1) }\nx = 3\nprintln(m(x, 2))\nfunc f(n) { m(n, n) }\nprintln(f(4))\nx = x + 1\nprintln(m(x, x))\n",
		"unless = macro(c, a, b) { quote(if !(unquote(c)) { unquote(a) } else { unquote(b) }) }\ny = 10\nprintln(unless(y > 5, \"small\", \"big\"))\ntw = macro(e) { quote(unquote(e) + unquote(e)) }\nprintln(tw(y), unless(tw(y) > 15, 1, 2))\n",
		"cnt = 0\nfunc inc() { cnt = cnt + 1 }\ninc()\ninc()\nprintln(cnt)\nadd = (n) => (m) => n + m\nadd2 = add(2)\nprintln(add2(5))\nfor i = 0:3 { inc() }\nprintln(cnt)\n",
	}
	for i, g := range gen {
		out[fmt.Sprintf("generated#%d", i)] = g
	}
	// grammar-generated programs of deeper nesting (deterministic; more of them in the thorough tier)
	nGen := 150
	if os.Getenv("VERIF_TIER") == "thorough" {
		nGen = 4000
	}
	gg := &c15Gen{state: 0x2545F4914F6CDD1D}
	for i := 0; i < nGen; i++ {
		var sb strings.Builder
		for k, ns := 0, 1+gg.n(3); k < ns; k++ {
			sb.WriteString(gg.stmt(3))
			sb.WriteString("\n")
		}
		out[fmt.Sprintf("grammar#%04d", i)] = sb.String()
	}
	return out
}

// c15Gen: a small deterministic generator of programs from the expression / statement grammar.
type c15Gen struct{ state uint64 }

func (g *c15Gen) n(k int) int {
	g.state ^= g.state << 13
	g.state ^= g.state >> 7
	g.state ^= g.state << 17
	return int(g.state % uint64(k))
}

func (g *c15Gen) pick(xs ...string) string { return xs[g.n(len(xs))] }

func (g *c15Gen) expr(d int) string {
	if d <= 0 {
		return g.pick("a", "b", "c", "1", "2.5", "\"s\"", "true", "nil", "x", "f(1)", "a[0]", "m.k")
	}
	switch g.n(14) {
	case 0, 1, 2, 3:
		op := g.pick("+", "-", "*", "/", "%", "==", "!=", "<", ">=", "&&", "||", "|", "&", "^", "<<", ">>")
		if op == "+" {
			// a parenthesised + on the right of a + is the recorded plus-chain finding: keep the right operand atomic
			return g.operand(d-1) + " + " + g.expr(0)
		}
		return g.operand(d-1) + " " + op + " " + g.operand(d-1)
	case 4:
		return g.pick("-", "!", "~") + g.operand(d-1)
	case 5:
		return "f(" + g.expr(d-1) + ", " + g.expr(d-1) + ")"
	case 6:
		return g.operand(d-1) + "[" + g.expr(d-1) + "]"
	case 7:
		return "[" + g.expr(d-1) + ", " + g.expr(d-1) + "]"
	case 8:
		return "{" + g.expr(0) + ": " + g.expr(d-1) + "}"
	case 9:
		return "if " + g.expr(d-1) + " { " + g.expr(d-1) + " } else { " + g.expr(d-1) + " }"
	case 10:
		return g.pick("x => ", "(x, y) => ", "() => ") + g.expr(d-1)
	case 11:
		return "func(p) { " + g.expr(d-1) + " }"
	case 12:
		return g.operand(d-1) + "[" + g.expr(0) + ":" + g.pick("", g.expr(0)) + "]"
	default:
		return g.expr(d - 1)
	}
}

// operand: an expression, parenthesised when it is not atomic (so that the intended structure is unambiguous)
func (g *c15Gen) operand(d int) string {
	e := g.expr(d)
	if strings.ContainsAny(e, " ") {
		return "(" + e + ")"
	}
	return e
}

// bareExpr: an expression used as a statement; one that starts with a prefix operator is left out (the recorded
// prefix-operator-statement finding).
func (g *c15Gen) bareExpr(d int) string {
	for {
		if e := g.expr(d); !strings.ContainsAny(e[:1], "-!~+") && !strings.HasPrefix(e, "(-") && !strings.HasPrefix(e, "(!") && !strings.HasPrefix(e, "(~") {
			return e
		}
	}
}

func (g *c15Gen) stmt(d int) string {
	switch g.n(9) {
	case 0, 1, 2:
		return g.pick("x", "y", "z") + " = " + g.expr(d)
	case 3:
		return g.bareExpr(d)
	case 4:
		return "if " + g.expr(d-1) + " {\n" + g.stmt(d-1) + "\n}"
	case 5:
		return "for i = 0:3 {\n" + g.stmt(d-1) + "\n}"
	case 6:
		return "func g" + g.pick("1", "2") + "(p, q) {\n" + g.stmt(d-1) + "\n" + g.bareExpr(d-1) + "\n}"
	case 7:
		return g.pick("x++", "y--", "println("+g.expr(d-1)+")")
	default:
		return g.pick("// note", "/* note */ ") + g.pick("", "x = "+g.expr(0))
	}
}

var c15BinaryOps = map[token.Type]bool{
	token.PLUS: true, token.MINUS: true, token.ASTERISK: true, token.SLASH: true, token.PERCENT: true, token.LT: true, token.GT: true,
	token.LTEQ: true, token.GTEQ: true, token.EQ: true, token.NOTEQ: true, token.AND: true, token.OR: true, token.ASSIGN: true,
	token.BITAND: true, token.BITOR: true, token.BITXOR: true, token.LEFTSHIFT: true, token.RIGHTSHIFT: true, token.COMMA: true,
}

func TestVerifBoundedLineMode(t *testing.T) {
	corpus := c15Corpus()
	evals, fails := 0, 0
	known := map[string]string{}
	fail := func(id, msg string) {
		if id != "" {
			if _, ok := known[id]; !ok {
				known[id] = msg
			}
			return
		}
		fails++
		if fails <= 5 {
			fmt.Printf("BOUNDED-FAIL %s\n", msg)
		}
	}
	names := make([]string, 0, len(corpus))
	for n := range corpus {
		names = append(names, n)
	}
	sort.Strings(names)
	// (1) same tree in both modes
	complete := map[string]bool{}
	for _, name := range names {
		src := corpus[name]
		evals += 2
		tf, ef, _, _ := c15Parse(src, false)
		tl, el, cl, _ := c15Parse(src, true)
		if len(ef) > 0 {
			continue // not a valid program in file mode: outside the property
		}
		complete[name] = true
		if len(el) > 0 || cl || tf != tl {
			fail("", fmt.Sprintf("complete program %s: file mode parses, line mode gives errors=%v continuation=%v sameTree=%v", name, el, cl, tf == tl))
		}
	}
	// (2) prefixes at token boundaries
	for _, name := range names {
		if !complete[name] {
			continue
		}
		src := corpus[name]
		l := lexer.New(src)
		depth := 0
		for n := 0; n < 5000; n++ {
			tok := l.NextToken()
			if tok.Type() == token.EOF {
				break
			}
			switch tok.Type() {
			case token.LPAREN, token.LBRACKET, token.LBRACE:
				depth++
			case token.RPAREN, token.RBRACKET, token.RBRACE:
				depth--
			}
			end := l.Pos()
			if end > len(src) {
				break
			}
			prefix := src[:end]
			needMore := depth > 0 || c15BinaryOps[tok.Type()]
			if !needMore {
				continue
			}
			evals++
			_, errs, cont, _ := c15Parse(prefix, true)
			if !cont || len(errs) > 0 {
				what := "inside an unclosed bracket"
				id := ""
				if strings.HasSuffix(prefix, "()") && len(errs) == 1 && strings.Contains(errs[0], "no prefix parse function for `)` found") {
					id = "empty-parens-before-arrow"
				}
				if depth == 0 {
					what = "right after the binary operator " + tok.Literal()
				}
				fail(id, fmt.Sprintf("%s: prefix of %d bytes ending %s (...%q): line mode continuation=%v errors=%v", name, end, what, tailOf(prefix, 30), cont, errs))
			}
		}
		// inside an unterminated string and block comment
		for _, extra := range []string{"x = \"abc", "y = 1 /* unterminated",
			// the text of the open string / comment is not program text: whatever it contains, more input is asked for
			"q = `SELECT a, b", "q = `SELECT a, b\n FROM t WHERE (", "s = \"if ( {", "s = `\n}\n)`[", "z = 1 /* ) } ] \n \"", "m = {\"a\": `x y z\n", "f(`a b`, `c d"} {
			evals++
			_, errs, cont, _ := c15Parse(extra, true)
			if !cont || len(errs) > 0 {
				fail("", fmt.Sprintf("prefix %q: line mode continuation=%v errors=%v", extra, cont, errs))
			}
		}
	}
	// (3) statement by statement versus whole script
	for _, name := range names {
		if !complete[name] || strings.Contains(name, "examples") {
			continue // examples draw images / take long; the generated programs and tests/ are used
		}
		src := corpus[name]
		// the way an interactive session receives the script: line by line, a line being held back while the
		// line-mode parser asks for more input
		var parts []string
		buf := ""
		for _, line := range strings.SplitAfter(src, "\n") {
			buf += line
			if strings.TrimSpace(buf) == "" {
				continue
			}
			_, _, cont, _ := c15Parse(buf, true)
			if cont {
				continue
			}
			parts = append(parts, buf)
			buf = ""
		}
		if strings.TrimSpace(buf) != "" {
			parts = append(parts, buf)
		}
		whole := c15RunSession([]string{src})
		evals += 1 + len(parts)
		piece := c15RunSession(parts)
		if strings.Contains(whole, "ERRORS") {
			continue // not error-free: outside the property
		}
		if whole != piece {
			fail("", fmt.Sprintf("script %s: whole run gives %q, statement-by-statement gives %q", name, cut(whole), cut(piece)))
		}
	}
	for id, m := range known {
		fmt.Printf("BOUNDED-KNOWN %s %s\n", id, m)
	}
	fmt.Printf("BOUNDED evaluations=%d distinct=%d exhaustive=false bound=%q\n", evals, evals,
		fmt.Sprintf("%d programs (examples/*.gr, tests/*.gr, 13 hand-written and 150 (quick) / 4000 (thorough) grammar-generated): both modes on the whole text; every token-boundary prefix inside an unclosed bracket or after a binary operator; statement-by-statement sessions for tests/*.gr and the generated programs", len(corpus)))
	if fails > 0 {
		t.Fatalf("%d failures", fails)
	}
}

func tailOf(s string, n int) string {
	if len(s) > n {
		return s[len(s)-n:]
	}
	return s
}

func cut(s string) string {
	if len(s) > 300 {
		return s[:150] + " ... " + s[len(s)-150:]
	}
	return s
}

// c15RunSession feeds the inputs to one persistent state and returns the concatenated output plus the final globals.
func c15RunSession(inputs []string) string {
	s := eval.NewState()
	out := &strings.Builder{} // what the program prints
	s.Out = out
	s.LogOut = out
	s.NoLog = true
	o := Options{All: true, ShowEval: true, NoColor: true, Compact: true}
	var allErrs []string
	for _, in := range inputs {
		results := &strings.Builder{} // the value of each input, shown by the REPL: not part of the program's output
		_, panicked, errs, _ := EvalOne(context.Background(), s, in, results, o)
		if panicked {
			allErrs = append(allErrs, "panic")
		}
		allErrs = append(allErrs, errs...)
	}
	g := &strings.Builder{}
	_, _ = s.SaveGlobals(g)
	res := out.String() + "\n--globals--\n" + g.String()
	if len(allErrs) > 0 {
		res += "\nERRORS " + strings.Join(allErrs, " | ")
	}
	return res
}
