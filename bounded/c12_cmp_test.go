package object

// Bounded stand-in for C12 (order/equality laws over containers and a curated universe), injected by govc with
// `go test -overlay`.  The scalar laws are proved (lemmaCmp2/lemmaCmpTrans); this evaluates the same laws through
// the real Cmp/Equals on every pair and triple of a curated universe that includes containers.

import (
	"fmt"
	"math"
	"os"
	"testing"
)

func c12Universe() ([]Object, []string) {
	var vs []Object
	var names []string
	add := func(n string, o Object) { vs = append(vs, o); names = append(names, n) }
	p53 := int64(1) << 53
	for _, i := range []int64{0, 1, -1, 2, p53 - 1, p53, p53 + 1, p53 + 2, -p53, -p53 - 1, math.MaxInt64, math.MaxInt64 - 1, math.MinInt64, math.MinInt64 + 1} {
		add(fmt.Sprintf("int(%d)", i), Integer{Value: i})
	}
	for _, f := range []float64{0, math.Copysign(0, -1), 1, -1, 0.5, float64(p53), float64(p53) + 2, -float64(p53), math.MaxInt64, -9223372036854775808.0, math.Inf(1), math.Inf(-1), math.NaN(), 5e-324, 1e300} {
		add(fmt.Sprintf("float(%v)", f), Float{Value: f})
	}
	add("true", TRUE)
	add("false", FALSE)
	add("nil", NULL)
	for _, s := range []string{"", "a", "b", "ab", "\xff", "\x00"} {
		add(fmt.Sprintf("str(%q)", s), String{Value: s})
	}
	add("err(a)", Error{Value: "a"})
	add("err(b)", Error{Value: "b"})
	one, two := Integer{Value: 1}, Integer{Value: 2}
	add("[]", NewArray([]Object{}))
	add("[1]", NewArray([]Object{one}))
	add("[2]", NewArray([]Object{two}))
	add("[1,2]", NewArray([]Object{one, two}))
	add("[1.0]", NewArray([]Object{Float{Value: 1}}))
	add("[[1]]", NewArray([]Object{NewArray([]Object{one})}))
	big := make([]Object, 9)
	for i := range big {
		big[i] = Integer{Value: int64(i)}
	}
	add("[0..8]", NewArray(big))
	big2 := append([]Object{}, big...)
	big2[8] = Float{Value: 8}
	add("[0..7,8.0]", NewArray(big2))
	// containers whose elements are themselves values Go's == cannot compare (functions, errors, large arrays, maps)
	fn1 := Function{CacheKey: "func(x){x}"}
	fn2 := Function{CacheKey: "func(x){x+1}"}
	add("func1", fn1)
	add("func2", fn2)
	add("[func1]", NewArray([]Object{fn1}))
	add("[func2]", NewArray([]Object{fn2}))
	add("[err(a)]", NewArray([]Object{Error{Value: "a"}}))
	add("[[0..8]]", NewArray([]Object{NewArray(big)}))
	add("[[0..7,8.0]]", NewArray([]Object{NewArray(big2)}))
	add("[{1:1}]", NewArray([]Object{NewMap().Set(one, one)}))
	add("{1:[0..8]}", NewMap().Set(one, NewArray(big)))
	add("{1:func1}", NewMap().Set(one, fn1))
	add("{}", NewMap())
	add("{1:1}", NewMap().Set(one, one))
	add("{1:2}", NewMap().Set(one, two))
	add("{2:1}", NewMap().Set(two, one))
	m5 := NewMap()
	for i := int64(0); i < 5; i++ {
		m5 = m5.Set(Integer{Value: i}, Integer{Value: i})
	}
	add("{0..4}", m5)
	m5b := NewMap()
	for i := int64(4); i >= 0; i-- {
		m5b = m5b.Set(Integer{Value: i}, Integer{Value: i})
	}
	add("{4..0}", m5b)
	return vs, names
}

func c12Cmp(a, b Object) (r int, panicked any) {
	defer func() { panicked = recover() }()
	return Cmp(a, b), nil
}

func isIntObj(o Object) bool   { _, ok := o.(Integer); return ok }
func isFloatObj(o Object) bool { _, ok := o.(Float); return ok }

func TestVerifBoundedCmpLaws(t *testing.T) {
	vs, names := c12Universe()
	if os.Getenv("VERIF_TIER") != "thorough" {
		// quick: every third value of each kind is still > 30 values; keep all (the universe is small)
	}
	n := len(vs)
	evals, fails := 0, 0
	known := map[string]string{}
	report := func(format string, a ...any) {
		fails++
		if fails <= 5 {
			fmt.Printf("BOUNDED-FAIL "+format+"\n", a...)
		}
	}
	c := make([][]int, n)
	for i := range vs {
		c[i] = make([]int, n)
		for j := range vs {
			evals++
			r, p := c12Cmp(vs[i], vs[j])
			if p != nil {
				report("Cmp(%s, %s) panicked: %v", names[i], names[j], p)
			}
			c[i][j] = r
			if r < -1 || r > 1 {
				report("Cmp(%s, %s) = %d not in {-1,0,1}", names[i], names[j], r)
			}
		}
	}
	for i := range vs {
		if c[i][i] != 0 {
			report("Cmp(%s, itself) = %d", names[i], c[i][i])
		}
		if !Equals(vs[i], vs[i]) {
			report("Equals(%s, itself) = false", names[i])
		}
		for j := range vs {
			evals++
			if c[i][j] != -c[j][i] {
				report("Cmp(%s,%s)=%d but Cmp(%s,%s)=%d", names[i], names[j], c[i][j], names[j], names[i], c[j][i])
			}
			eij := Equals(vs[i], vs[j])
			if eij != Equals(vs[j], vs[i]) {
				report("Equals(%s,%s) not symmetric", names[i], names[j])
			}
			if eij && c[i][j] != 0 {
				report("Equals(%s,%s) but Cmp = %d", names[i], names[j], c[i][j])
			}
			for k := range vs {
				evals++
				if c[i][j] <= 0 && c[j][k] <= 0 && c[i][k] > 0 {
					// known finding: int/float/int (or permutations with a float in the chain) beyond 2^53
					mixed := (isIntObj(vs[i]) || isFloatObj(vs[i])) && (isIntObj(vs[j]) || isFloatObj(vs[j])) && (isIntObj(vs[k]) || isFloatObj(vs[k])) &&
						(isFloatObj(vs[i]) || isFloatObj(vs[j]) || isFloatObj(vs[k])) && (isIntObj(vs[i]) || isIntObj(vs[j]) || isIntObj(vs[k]))
					if mixed {
						if _, ok := known["trans-intfloat"]; !ok {
							known["trans-intfloat"] = fmt.Sprintf("Cmp(%s,%s)=%d, Cmp(%s,%s)=%d but Cmp(%s,%s)=%d", names[i], names[j], c[i][j], names[j], names[k], c[j][k], names[i], names[k], c[i][k])
						}
					} else {
						report("not transitive: Cmp(%s,%s)=%d, Cmp(%s,%s)=%d but Cmp(%s,%s)=%d", names[i], names[j], c[i][j], names[j], names[k], c[j][k], names[i], names[k], c[i][k])
					}
				}
				if eij && Equals(vs[j], vs[k]) && !Equals(vs[i], vs[k]) {
					report("Equals not transitive on %s, %s, %s", names[i], names[j], names[k])
				}
			}
		}
	}
	for id, d := range known {
		fmt.Printf("BOUNDED-KNOWN %s %s\n", id, d)
	}
	fmt.Printf("BOUNDED evaluations=%d distinct=%d exhaustive=true bound=%q\n", evals, n*n*n,
		fmt.Sprintf("all pairs and triples of a curated universe of %d values (boundary integers around 2^53 and 2^63, +-0, NaN, +-Inf, subnormal, booleans, nil, strings, errors, small/large/nested arrays, functions, arrays and maps holding functions / errors / large arrays / maps, small/large maps built in two insertion orders)", n))
	if fails > 0 {
		t.Fatalf("%d failures", fails)
	}
}
