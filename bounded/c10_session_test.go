package repl

// Bounded stand-in for the history part of C10, injected by govc with `go test -overlay`:
// a fixed session of succeeding inputs is replayed on one persistent eval.State with side-effect-free failing
// inputs of every failure kind inserted at every position with multiplicity 1, 2 and 9; the output and errors of every
// succeeding input must equal those of the session without the failing inputs.

import (
	"context"
	"fmt"
	"strings"
	"testing"
	"time"

	"grol.io/grol/eval"
)

type c10Input struct {
	src      string
	deadline time.Duration
}

var c10Good = []string{
	`func boom(n) { if n <= 0 { 1/0 } else { boom(n-1) } }`,
	`func deep(n) { deep(n+1) }`,
	`func add(a,b) { a+b }`,
	`x = 41; println("x", x)`,
	`println(add(x,1))`,
	`for i=0:3 { print(i, " ") }; println()`,
	`m = {"a":1}; m["b"]=2; println(m)`,
	`println(add(1,2), x)`,
	`for i=0:2 { for j=0:2 { print(add(i,j)) } }; println()`,
	`func fact(n) { if n<=1 {1} else {n*fact(n-1)} }; println(fact(10))`,
	`y = 0; for k=0:4 { y = y + k }; println(y)`,
	`a = [1,2,3]; a[1] = 7; println(a, len(a))`,
	`println(fact(5), add(y, x))`,
}

// Failing inputs: none of them binds, prints or mutates anything before it fails.
var c10Bad = []c10Input{
	{`boom(3)`, 0}, // language error three calls deep
	{`for i=0:5 { for j=0:5 { boom(j) } }`, 0},          // error inside nested loops inside calls
	{`add(1, boom(2))`, 0},                              // error while evaluating an argument
	{`deep(0)`, 0},                                      // recovered panic: depth limit inside nested calls
	{`for q=0:3 { deep(0) }`, 0},                        // the same from inside a top-level counted loop
	{`undefined_thing + 1`, 0},                          // unbound identifier
	{`add(1)`, 0},                                       // wrong number of arguments
	{`for t=0:100000000000 { }`, 40 * time.Millisecond}, // deadline
	{`func(z){ for w=0:9 { boom(w) } }(1)`, 0},          // error inside a lambda's loop
	{`[1,2,3][boom(0)]`, 0},                             // error inside an index expression
}

func c10Session(inputs []c10Input, isGood []bool) []string {
	s := eval.NewState()
	s.MaxDepth = 200
	s.NoLog = true
	var outs []string
	for i, in := range inputs {
		out := &strings.Builder{}
		if i == 0 {
			s.Out = out
			s.LogOut = out
		}
		// the session's writer is whatever s.Out is: keep one writer for the session and cut it per input
		w, isSession := s.Out.(*strings.Builder)
		if !isSession {
			// the session's writer was replaced and not restored: everything printed from now on is lost
			outs = append(outs, fmt.Sprintf("session writer lost before input %d: s.Out is a %T", i, s.Out))
			return outs
		}
		w.Reset()
		o := Options{All: true, ShowEval: true, NoColor: true, Compact: true, MaxDuration: in.deadline}
		_, panicked, errs, _ := EvalOne(context.Background(), s, in.src, w, o)
		if isGood[i] {
			outs = append(outs, fmt.Sprintf("out=%q errs=%q panicked=%v", w.String(), errs, panicked))
		}
	}
	return outs
}

func TestVerifBoundedSession(t *testing.T) {
	var base []c10Input
	var baseGood []bool
	for _, g := range c10Good {
		base = append(base, c10Input{g, 0})
		baseGood = append(baseGood, true)
	}
	want := c10Session(base, baseGood)
	evals, fails, histories := 0, 0, 0
	check := func(desc string, inputs []c10Input, good []bool) {
		histories++
		evals += len(inputs)
		got := c10Session(inputs, good)
		for i := range want {
			if i >= len(got) || got[i] != want[i] {
				fails++
				g := "<missing>"
				if i < len(got) {
					g = got[i]
				}
				if fails <= 5 {
					fmt.Printf("BOUNDED-FAIL session %s: input %d %q gives %s, without the failing inputs %s\n", desc, i, c10Good[i], g, want[i])
				}
				return
			}
		}
	}
	// the failing inputs only use helpers defined by the first three inputs
	for bi, bad := range c10Bad {
		for pos := 3; pos <= len(c10Good); pos++ {
			for _, mult := range []int{1, 2, 9} {
				var inputs []c10Input
				var good []bool
				for i, g := range c10Good {
					if i == pos {
						for k := 0; k < mult; k++ {
							inputs = append(inputs, bad)
							good = append(good, false)
						}
					}
					inputs = append(inputs, c10Input{g, 0})
					good = append(good, true)
				}
				if pos == len(c10Good) {
					continue
				}
				check(fmt.Sprintf("failing input #%d %q x%d before input %d", bi, bad.src, mult, pos), inputs, good)
			}
		}
	}
	// every failing kind between every two succeeding inputs
	var inputs []c10Input
	var good []bool
	for i, g := range c10Good {
		if i >= 3 {
			for _, bad := range c10Bad {
				inputs = append(inputs, bad)
				good = append(good, false)
			}
		}
		inputs = append(inputs, c10Input{g, 0})
		good = append(good, true)
	}
	check("all failing kinds before every input", inputs, good)
	fmt.Printf("BOUNDED evaluations=%d distinct=%d exhaustive=false bound=%q\n", evals, histories,
		fmt.Sprintf("%d histories: one session of %d succeeding inputs x %d failing kinds (error in nested calls/loops/arguments/index/lambda, depth-limit panic at top level and inside a loop, unbound name, arity, deadline) x every insertion position x multiplicity 1,2,9, plus all kinds before every input; one persistent eval.State through repl.EvalOne", histories, len(c10Good), len(c10Bad)))
	if fails > 0 {
		t.Fatalf("%d failures", fails)
	}
}
