package repl

// Bounded stand-in for C14, injected by govc with `go test -overlay`: a session's globals are saved with
// (*eval.State).SaveGlobals and loaded into a fresh session both in one go (load) and one line at a time (the way
// auto-load reads the file); every saved data value must come back with the same type and an equal value, every saved
// function must behave the same on sample arguments, each binding must occupy exactly one line, saving the reloaded
// state must give the same file, and values longer than the limit must be skipped (absent), not truncated.

import (
	"context"
	"fmt"
	"os"
	"sort"
	"strings"
	"testing"

	"grol.io/grol/eval"
	"grol.io/grol/extensions"
	"grol.io/grol/object"
)

type c14Binding struct {
	name, expr string
	class      string // known-finding class when it fails ("" = must hold)
}

func c14Eval(s *eval.State, src string) (string, []string) {
	out := &strings.Builder{}
	s.Out = out
	s.LogOut = out
	s.NoLog = true
	o := Options{All: true, ShowEval: true, NoColor: true, Compact: true}
	res := &strings.Builder{}
	_, _, errs, _ := EvalOne(context.Background(), s, src, res, o)
	return out.String() + res.String(), errs
}

func c14Describe(s *eval.State, name string) string {
	v, errs := c14Eval(s, fmt.Sprintf("println(type(%s), %s)", name, name))
	if len(errs) > 0 {
		return "ERR " + strings.Join(errs, "|")
	}
	return strings.TrimSpace(v)
}

func TestVerifBoundedSaveLoad(t *testing.T) {
	bindings := []c14Binding{
		{"i0", "0", ""}, {"i1", "42", ""}, {"ineg", "-17", ""}, {"imax", "9223372036854775807", ""}, {"imin", "-9223372036854775807 - 1", "min-int"},
		{"f1", "1.5", ""}, {"fneg", "-0.25", ""}, {"fsmall", "1e-7", ""}, {"fbig", "1e300", "float-without-fraction"}, {"fint", "3.0", "float-without-fraction"}, {"fdiv", "10.0/4", ""},
		{"fhuge", "1e19", "float-without-fraction"},
		{"b1", "true", ""}, {"b0", "false", ""},
		{"s0", `""`, ""}, {"s1", `"abc"`, ""}, {"snl", `"line1\nline2"`, ""}, {"sq", `"say \"hi\" \\ back"`, ""}, {"stab", `"a\tb"`, ""}, {"suni", `"héllo ☃ 日本"`, ""},
		{"sctl", `"bell\x07end"`, "control-character-escape"},
		{"sbyte", `"é"[0:1]`, ""}, {"sbytes", `"\xc3\x28\xff"`, ""}, {"slatin", `"caf\xe9"`, ""},
		{"a0", "[]", ""}, {"a3", "[1, 2.5, \"x\"]", ""}, {"a9", "[1,2,3,4,5,6,7,8,9]", ""}, {"anest", "[[1,2],[3,[4,5]],{\"k\":[6]}]", ""},
		{"m0", "{}", ""}, {"m2", "{\"a\":1, 2:\"b\"}", ""}, {"m6", "{1:1,2:2,3:3,4:4,5:5,6:6}", ""}, {"mnest", "{\"x\":{\"y\":{\"z\":[1,{\"w\":false}]}}}", ""},
		{"mkeys", "{1.5:\"f\", true:\"b\", \"s\":\"s\"}", ""},
	}
	funcs := []struct {
		def, name string
		args      []string
	}{
		{"func add3(a, b, c) { a + b * c }", "add3", []string{"1,2,3", "-1,0,5"}},
		{"func fact(n) { if n <= 1 { 1 } else { n * fact(n - 1) } }", "fact", []string{"5", "10"}},
		{"lam = (x, y) => x * y + 1", "lam", []string{"2,3", "0,0"}},
		{"func strf(s) { s + \"!\\n\" + s }", "strf", []string{"\"a\"", "\"\\\"q\\\"\""}},
		{"func loopf(n) { t = 0; for i = 0:n { if i % 2 == 0 { continue }; t = t + i }; t }", "loopf", []string{"10", "0"}},
		{"func vari(a, ..) { len(..) + a }", "vari", []string{"1", "1,2,3"}},
		{"func mapf(k) { m = {\"a\": [1,2], \"b\": {\"c\": 3}}; m[k] }", "mapf", []string{"\"a\"", "\"b\""}},
		{"func cmpf(a, b) { if a < b && !(a == b) || a >= 10 { -a } else { b % 3 } }", "cmpf", []string{"1,2", "12,3", "5,5"}},
		// two functions with the same parameters and body under different names, an alias, empty stubs, an open ended range
		{"func double(x) { x * 2 }", "double", []string{"4"}},
		{"func twice(x) { x * 2 }", "twice", []string{"5"}},
		{"func on_start() { }", "on_start", []string{""}},
		{"func on_stop() { }", "on_stop", []string{""}},
		{"func tailf(a) { a[1:] + a[0:1] }", "tailf", []string{"[1,2,3]", "\"abc\""}},
		{"func pick(a, b, c) { a + (b | c) - (a - b) }", "pick", []string{"1,2,4", "7,1,1"}},
	}
	_ = extensions.Init(nil) // type(), nil, ... (an already initialised package reports an error: ignored)
	evals, fails := 0, 0
	known := map[string]string{}
	fail := func(class, msg string) {
		if class != "" {
			if _, ok := known[class]; !ok {
				known[class] = msg
			}
			return
		}
		fails++
		if fails <= 6 {
			fmt.Printf("BOUNDED-FAIL %s\n", msg)
		}
	}
	// build the original session
	orig := eval.NewState()
	for _, b := range bindings {
		if _, errs := c14Eval(orig, b.name+" = "+b.expr); len(errs) > 0 {
			fail("", fmt.Sprintf("cannot define %s = %s: %v", b.name, b.expr, errs))
		}
	}
	for _, f := range funcs {
		if _, errs := c14Eval(orig, f.def); len(errs) > 0 {
			fail("", fmt.Sprintf("cannot define %s: %v", f.def, errs))
		}
	}
	file := &strings.Builder{}
	if _, err := orig.SaveGlobals(file); err != nil {
		fail("", "SaveGlobals: "+err.Error())
	}
	saved := file.String()
	if strings.Contains(fmt.Sprint(testing.Verbose()), "true") && len(saved) < 0 {
		fmt.Println(saved)
	}
	lines := strings.Split(strings.TrimSuffix(saved, "\n"), "\n")
	// one line per binding, sorted, each line starting with its name
	wantNames := map[string]bool{}
	for _, b := range bindings {
		wantNames[b.name] = true
	}
	for _, f := range funcs {
		wantNames[f.name] = true
	}
	seen := map[string]int{}
	for _, l := range lines {
		evals++
		name := l
		if strings.HasPrefix(l, "func ") {
			name = strings.TrimPrefix(l, "func ")
			name = name[:strings.IndexAny(name, "(")]
		} else if i := strings.IndexByte(l, '='); i > 0 {
			name = l[:i]
		} else {
			fail("", fmt.Sprintf("saved line is neither name=value nor func name(...): %q", l))
		}
		seen[name]++
	}
	for n := range wantNames {
		if seen[n] != 1 {
			fail("", fmt.Sprintf("binding %s occupies %d lines of the saved file (want exactly 1)", n, seen[n]))
		}
	}
	// reload: whole file at once, and line by line (auto-load)
	for _, mode := range []string{"whole", "line-by-line"} {
		fresh := eval.NewState()
		if mode == "whole" {
			if _, errs := c14Eval(fresh, saved); len(errs) > 0 {
				fail("load-error-"+mode, fmt.Sprintf("loading the saved file (%s) reports %v", mode, errs))
			}
		} else {
			for _, l := range lines {
				if _, err := eval.EvalString(fresh, l, false); err != nil {
					cls := ""
					if strings.HasPrefix(l, "Inf=") || strings.HasPrefix(l, "NaN=") {
						cls = "inf-nan-lines"
					}
					fail(cls, fmt.Sprintf("auto-load of line %q fails: %v", l, err))
				}
			}
		}
		for _, b := range bindings {
			evals++
			want, got := c14Describe(orig, b.name), c14Describe(fresh, b.name)
			if want != got {
				fail(b.class, fmt.Sprintf("%s = %s: saved session has %q, reloaded (%s) session has %q", b.name, b.expr, want, mode, got))
			}
		}
		for _, f := range funcs {
			for _, a := range f.args {
				evals++
				call := fmt.Sprintf("println(%s(%s))", f.name, a)
				w, _ := c14Eval(orig, call)
				g, ge := c14Eval(fresh, call)
				if w != g {
					fail("", fmt.Sprintf("function %s reloaded (%s): %s gives %q (errors %v), originally %q", f.name, mode, call, g, ge, w))
				}
			}
		}
		// saving the reloaded state yields the same file
		again := &strings.Builder{}
		_, _ = fresh.SaveGlobals(again)
		if again.String() != saved {
			a, b := strings.Split(again.String(), "\n"), strings.Split(saved, "\n")
			diff := ""
			for i := 0; i < len(a) && i < len(b); i++ {
				if a[i] != b[i] {
					diff = fmt.Sprintf("first differing line: %q vs %q", a[i], b[i])
					break
				}
			}
			cls := ""
			if len(known) > 0 {
				cls = "resave-differs-after-known-deviation"
			}
			fail(cls, fmt.Sprintf("saving the reloaded (%s) state gives a different file (%s)", mode, diff))
		}
	}
	// values longer than the limit are skipped, not truncated
	{
		lim := eval.NewState()
		lim.MaxValueLen = 20
		_, _ = c14Eval(lim, "short = \"abc\"\nlong = \"0123456789012345678901234567890123456789\"\nbigarr = [1,2,3,4,5,6,7,8,9,10,11,12,13,14,15]")
		f := &strings.Builder{}
		_, _ = lim.SaveGlobals(f)
		evals++
		if strings.Contains(f.String(), "long=") || strings.Contains(f.String(), "bigarr=") || !strings.Contains(f.String(), "short=\"abc\"\n") {
			fail("", fmt.Sprintf("with MaxValueLen=20 the saved file is %q: over-long values must be absent and short ones intact", f.String()))
		}
	}
	// the real auto-save / auto-load path (state file in the current directory, read one line at a time)
	{
		dir := t.TempDir()
		cwd, _ := os.Getwd()
		if err := os.Chdir(dir); err == nil {
			for _, tc := range []struct {
				id    string
				limit int
				src   string
				names []string
			}{
				{"", 4000, "a = 1\nlong = \"" + strings.Repeat("x", 3996) + "\"\nz = 2", []string{"a", "long", "z"}},
				{"", 4000, "a = 1\nfunc big(n) { " + strings.Repeat("n = n + 1; ", 1200) + "n }\nz = 2", []string{"a", "z"}},
				{"", 0, "a = 1\nhuge = \"" + strings.Repeat("y", 70000) + "\"\nz = 2", []string{"a", "huge", "z"}},
			} {
				evals++
				st := eval.NewState()
				st.MaxValueLen = tc.limit
				if _, errs := c14Eval(st, tc.src); len(errs) > 0 {
					fail("", fmt.Sprintf("auto-save case: cannot evaluate the setup: %v", errs))
					continue
				}
				o := Options{AutoSave: true, AutoLoad: true, MaxValueLen: tc.limit}
				if err := AutoSave(st, o); err != nil {
					fail("", "AutoSave: "+err.Error())
					continue
				}
				fr := eval.NewState()
				fr.MaxValueLen = tc.limit
				_ = AutoLoad(fr, o)
				for _, n := range tc.names {
					w, g := c14Describe(st, "len(str("+n+"))"), c14Describe(fr, "len(str("+n+"))")
					if w != g {
						fail(tc.id, fmt.Sprintf("auto-save then auto-load with limit %d: binding %s (setup %.60q...) is %q in the saved session and %q after auto-load", tc.limit, n, tc.src, w, g))
						break
					}
				}
				if tc.names[0] == "a" && len(tc.names) == 2 {
					w, _ := c14Eval(st, "println(big(1))")
					g, _ := c14Eval(fr, "println(big(1))")
					if w != g {
						fail(tc.id, fmt.Sprintf("auto-save then auto-load: long named function gives %q after reload, %q before", g, w))
					}
				}
				os.Remove(AutoSaveFile)
			}
			_ = os.Chdir(cwd)
		}
	}
	_ = object.NULL
	ids := make([]string, 0, len(known))
	for id := range known {
		ids = append(ids, id)
	}
	sort.Strings(ids)
	for _, id := range ids {
		fmt.Printf("BOUNDED-KNOWN %s %s\n", id, known[id])
	}
	fmt.Printf("BOUNDED evaluations=%d distinct=%d exhaustive=false bound=%q\n", evals, evals,
		fmt.Sprintf("one session with %d data bindings (integers incl. extremes, floats, booleans, nil, strings with escapes/newlines/unicode, arrays and maps across both size thresholds, nested) and %d functions (recursive, lambda, variadic, loops, maps), saved and reloaded whole and line by line, compared by type(), printed value, function results on sample arguments, re-saved file, plus the length limit", len(bindings), len(funcs)))
	if fails > 0 {
		t.Fatalf("%d failures", fails)
	}
}
