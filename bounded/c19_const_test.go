package repl

// Bounded stand-in for C19, injected by govc with `go test -overlay`: every syntactic kind of mutation attempt on a
// constant holding each kind of value, at top level and from nested function / loop scopes, with registers on and
// off: the attempt must fail with an error or leave the constant unchanged, and the outcome must not depend on
// the register setting.

import (
	"context"
	"fmt"
	"strings"
	"testing"
)

func ctxBackground() context.Context { return context.Background() }

func TestVerifBoundedConstants(t *testing.T) {
	values := map[string]string{
		"int": "42", "float": "1.5", "str": `"abc"`, "bool": "true", "nil": "nil",
		"smallarr": "[1,2,3]", "bigarr": "[1,2,3,4,5,6,7,8,9,10]", "smallmap": `{"a":1}`, "bigmap": `{1:1,2:2,3:3,4:4,5:5,6:6}`,
		"func": "func(x){x+1}",
	}
	attempts := []struct{ name, code string }{
		{"assign", "K = 7"}, {"define", "K := 7"}, {"incr", "K++"}, {"decr", "K--"}, {"preincr", "++K"},
		{"index-assign", "K[0] = 100"}, {"index-assign-key", `K["a"] = 100`}, {"index-assign-1", "K[1] = 100"},
		{"del-elem", `del(K["a"])`}, {"del-elem-1", "del(K[1])"},
		{"loopvar", "for K = 0:3 {}"}, {"listloopvar", "for K = [7,8] {}"},
		{"param", "func f(K) { K = 9; K }; f(9)"}, {"nested-assign", "func g() { K = 7 }; g()"}, {"nested-define-then-outer", "func h() { K := 7; K }; h()"},
		{"lambda-assign", "(()=>{K = 7})()"}, {"in-loop-assign", "for i = 0:2 { K = i }"}, {"plus-assign-self", "K = K"},
	}
	evals, fails := 0, 0
	known := map[string]string{}
	for vn, v := range values {
		for _, a := range attempts {
			var outs [2]string
			for ri, noReg := range []bool{false, true} {
				evals++
				src := "K = " + v + "\n" + a.code + "\nprintln(\"VALUE\", K)\n"
				o := Options{All: true, ShowEval: false, NoColor: true, Compact: true, NoReg: noReg}
				res, errs, _ := EvalString2(src, o)
				before := "K = " + v + "\nprintln(\"VALUE\", K)\n"
				want, _, _ := EvalString2(before, o)
				got := ""
				for _, l := range strings.Split(res, "\n") {
					if strings.HasPrefix(l, "VALUE") {
						got = l
					}
				}
				wantLine := strings.TrimSpace(want)
				changed := got != "" && got != wantLine
				outs[ri] = fmt.Sprintf("changed=%v errs=%d", changed, len(errs))
				if changed {
					id := "inplace"
					if !(strings.HasPrefix(a.name, "index-assign") || strings.HasPrefix(a.name, "del-elem")) || !(vn == "bigarr" || vn == "bigmap") {
						id = ""
					}
					msg := fmt.Sprintf("constant holding %s changed by %q (noreg=%v): %s -> %s", vn, a.code, noReg, wantLine, got)
					if id != "" {
						if _, ok := known[id]; !ok {
							known[id] = msg
						}
					} else {
						fails++
						if fails <= 5 {
							fmt.Printf("BOUNDED-FAIL %s\n", msg)
						}
					}
				}
			}
			if outs[0] != outs[1] {
				id := "regdiff"
				msg := fmt.Sprintf("constant holding %s, attempt %q: registers on -> %s, off -> %s", vn, a.code, outs[0], outs[1])
				if a.name == "loopvar" || a.name == "param" {
					if _, ok := known[id]; !ok {
						known[id] = msg
					}
				} else {
					fails++
					if fails <= 5 {
						fmt.Printf("BOUNDED-FAIL %s\n", msg)
					}
				}
			}
		}
	}
	for id, m := range known {
		fmt.Printf("BOUNDED-KNOWN %s %s\n", id, m)
	}
	fmt.Printf("BOUNDED evaluations=%d distinct=%d exhaustive=true bound=%q\n", evals, evals,
		fmt.Sprintf("%d value kinds x %d mutation attempts x registers on/off, through repl.EvalStringWithOption", len(values), len(attempts)))
	if fails > 0 {
		t.Fatalf("%d failures", fails)
	}
}

// EvalString2 evaluates a whole program in a fresh state without auto load/save.
func EvalString2(src string, o Options) (string, []string, string) {
	o.AutoLoad = false
	o.AutoSave = false
	return EvalStringWithOption(ctxBackground(), o, src)
}
