#!/bin/sh
# verify_seed.sh <seed_out_dir> <demo_file> <dest_rel_path_in_repo> <go test pkg> <run regex>
# Confirms: demo passes without the patch, suite passes with it, demo fails with it.
set -u
out="$1"; demo="$2"; dest="$3"; pkg="$4"; run="$5"
export GOFLAGS=-mod=mod GOPROXY=off
wt=/tmp/wt/verify_$$
git -C /repo worktree add -q --detach $wt HEAD || exit 2
trap 'git -C /repo worktree remove --force '$wt' >/dev/null 2>&1' EXIT
cd $wt
mkdir -p "$(dirname "$dest")"; cp "$out/$demo" "$dest"
echo "--- demo WITHOUT patch (expect ok)"; go test -vet=off -count=1 -run "$run" "$pkg" 2>&1 | tail -3
git apply "$out/patch.diff" || { echo "APPLY FAILED"; exit 2; }
echo "--- demo WITH patch (expect FAIL)"; go test -vet=off -count=1 -run "$run" "$pkg" 2>&1 | tail -5
rm -f "$dest"
echo "--- full suite WITH patch (expect ok)"; go test -vet=off -count=1 ./... 2>&1 | grep -v "no test files" | tail -12
