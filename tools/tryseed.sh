#!/bin/bash
# tryseed.sh <name> [extra props...]: confirm a sub-agent's seed in /tmp/seed_out/<name> (demo passes without, fails with,
# suite passes with the patch) and run the property's check on a scratch copy with the patch applied.
n="$1"; shift
cd /verif
git -C /repo worktree remove --force /tmp/wt/$n >/dev/null 2>&1
read demo dest pkg run prop < <(python3 -c "
import json; d=json.load(open('/tmp/seed_out/$n/meta.json')); print(d['demo_file'],d['demo_dest'],d['demo_pkg'],d['demo_run'],d['property'])")
echo "== $n ($prop) demo=$demo dest=$dest pkg=$pkg run=$run"
tools/verify_seed.sh /tmp/seed_out/$n "$demo" "$dest" "$pkg" "$run" 2>&1 | grep -- "---\|^ok\|^FAIL\|APPLY" | head -14
true; d=$(mktemp -d /tmp/tryseed.XXXXXX)
rsync -a --exclude .git /repo/ "$d/repo/"
( cd "$d/repo" && patch -p1 -s < /tmp/seed_out/$n/patch.diff ) || echo "PATCH FAILED on current tree"
for p in $prop "$@"; do
  GOFLAGS=-mod=mod GOPROXY=off bin/govc check -repo "$d/repo" -prop "$p" -out "$d/out" | grep "^  failed\|^  unknown\|^property" | cut -c1-260 | head -6
done
rm -rf "$d"
