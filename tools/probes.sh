#!/bin/bash
# probes.sh: engine regression probes.  Appends small functions with FALSE postconditions to a scratch copy of the trie
# package; every post.1 obligation of a probe must FAIL (a probe that proves is an engine soundness bug).
cd /verif
d=$(mktemp -d /tmp/probes.XXXXXX)
rsync -a --exclude .git /repo/ "$d/repo/"
cat govc/testdata/probes_unsound.go.txt >> "$d/repo/trie/verif_contracts.go"
out=$(GOFLAGS=-mod=mod GOPROXY=off bin/govc fn -repo "$d/repo" -prop C20 -key trie.loopPriv 2>&1 | grep "post\.1")
rm -rf "$d"
n=$(echo "$out" | grep -c "post\.1")
bad=$(echo "$out" | grep -c " proved ")
echo "$out" | cut -c1-110
if [ "$n" -lt 8 ] || [ "$bad" -ne 0 ]; then echo "PROBES: UNSOUND ($bad of $n false postconditions proved)"; exit 1; fi
echo "PROBES: ok ($n false postconditions all refuted)"
