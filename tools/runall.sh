#!/bin/sh
# runall.sh [tier]: run every check registered in MANIFEST.json (4 at a time), print one line per property.
cd /verif
tier="${1:-quick}"
ids=$(python3 -c "import json;print(' '.join(c['property_id'] for c in json.load(open('MANIFEST.json'))['checks']))")
(cd govc && GOFLAGS=-mod=mod GOPROXY=off go build -o ../bin/govc .) || exit 2
mkdir -p /tmp/runall
for id in $ids; do
  ( ./check $id $tier > /tmp/runall/$id.log 2>&1; echo "$id exit=$? $(grep '^property' /tmp/runall/$id.log)" ) &
  wait
done
wait
