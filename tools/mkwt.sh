#!/bin/sh
# mkwt.sh <name>: scratch worktree of /repo HEAD without the verif contract files, at /tmp/wt/<name>
set -e
name="$1"
mkdir -p /tmp/wt
git -C /repo worktree add -q --detach /tmp/wt/$name HEAD
cd /tmp/wt/$name
git rm -q -f --ignore-unmatch */verif_contracts*.go verif_contracts*.go >/dev/null 2>&1 || true
git -c user.name=builder -c user.email=b@x commit -q -m "seed base (contracts removed)" || true
echo /tmp/wt/$name
