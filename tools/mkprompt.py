#!/usr/bin/env python3
# mkprompt.py <name> <property id> <angle text>: writes /tmp/prompt_<name>.txt from tools/seed_prompt.tmpl
import json,sys
name,pid,angle=sys.argv[1:4]
for line in open('/verif/properties.jsonl'):
    p=json.loads(line)
    if p.get('id')==pid: break
else: sys.exit('no such property')
q=p.get('quantifier',{})
qtext=q if isinstance(q,str) else q.get('text',json.dumps(q))
anch=p.get('anchors',{}) or {}
files=", ".join(anch.get('files',[])) if isinstance(anch,dict) else str(anch)
mech="; ".join("%s (%s)"%(m.get('name',''),m.get('where','')) if isinstance(m,dict) else str(m) for m in anch.get('mechanism',[])) if isinstance(anch,dict) else ""
t=open('/verif/tools/seed_prompt.tmpl').read()
out=t.format(wt='/tmp/wt/'+name,id=pid,title=p.get('title',''),statement=p.get('statement',''),qtext=qtext,why=p.get('why_tests_cant',''),files=files,mech=mech,angle=angle,name=name)
open('/tmp/prompt_%s.txt'%name,'w').write(out)
print(len(out))
