#!/usr/bin/env python3
"""Regenerates /verif/MANIFEST.json from the table below (run after changing what a check covers)."""
import json, subprocess

TECH = "contract-based deductive verification of the real Go code: govc (own VC generator over go/ssa, contracts as //@ comments under build tag verif) + z3 5.1 / cvc5 1.0 / z3 4.8"

# id -> (category, text, note, technique-suffix)
CLAIMS = {
 "C01": ("proof",
  "Per-function contracts on the evaluator's leaf operations (integer/float/string/boolean infix and prefix operators, comparison, "
  "index and slice expressions on strings and arrays) state the language's value semantics as postconditions over the real functions in eval/ and object/; dispatcher clauses on evalInternal, evalIfExpression, evalStatements and evalForInteger pin evaluation order (left operand first), error propagation, short-circuiting of && and || without evaluating the right operand, single-branch evaluation of if/else, and early exit of statement sequences and loop bodies; "
  "every obligation is discharged for all operands with 64-bit integers as bit-vectors and IEEE floats. The tree-walking recursion above the leaves "
  "(evaluation order, scoping) is carried by assumed frame contracts, so this is a proof of the leaf semantics and of evaluation-order clauses inside the verified callers, not of whole-program meaning.",
  "Assumed (reported per run in the evidence as ASSUMED PRECONDITION / ASSUMED CLAUSE notes): operand values handed to the leaf operations are well-formed (wfObj: no typed-nil, small arrays within their length bound) - a data invariant of evaluated values that the dispatcher does not establish; (*State).quote's contract; stdlib contracts in contracts/stdlib.contracts; strings shorter than 2^46."),
 "C02": ("proof",
  "Structural core decided on SSA: the printer and the parser take operator precedence from one and the same table (every precedence lookup in packages parser and ast reads ast.Precedences, which nothing writes after package initialisation), so the printer's parenthesisation and the parser's grouping cannot drift apart through a table edit. "
  "The identity parse(print(t)) = t itself relates two recursive algorithms over all programs (the parser's panic freedom is proved under C08, not what it returns): bounded stand-in over about 7000 source texts (repository examples and tests; every ordered pair of the 18 binary operators in three nestings; every prefix/binary combination; 18 operand forms - if/for/lambda/function/call/index/literal - on both sides of 11 operators and in index/call/prefix/condition positions; every ordered pair of 32 statement forms on consecutive lines, at top level and in a function body; string literals with raw non-UTF-8 bytes and escapes; number spellings; comment placements; grammar-generated programs of nesting depth 3, 400 in the quick tier and 20000 in the thorough tier), normal and compact mode, trees compared both by fully parenthesised print and by a reflection dump that does not go through the printer under test. It found seven genuine defects that are fixed (a - (b - c) formatted as a - b - c; adjacent signs in compact mode; a lambda operand and a parenthesised callee losing their parentheses; two word statements printed as one word; a[1:] printed as a[1 : nil]; a statement starting with ( or [ - a lambda's parameter list, a parenthesised operand - glued to the statement before it in compact mode) and two that are recorded (the parentheses of a + chain on the right are dropped, which the repository's own parser test requires; a statement starting with a prefix - or -- right after a parenthesised expression statement or a comment).",
  "The structural clause is an audit (no SMT obligations). The round trip is bounded only: this is the weakest claim in the set."),
 "C03": ("proof",
  "Structural core decided on SSA: formatting is a function of the tree and the mode flags only - no function reachable from the PrettyPrint methods, DebugString or the PrintState methods reads a package-level variable that is written after initialisation, ranges over a map, or can reach time / random / os functions; this is the 'in any process, after any other inputs were parsed' part of the property, for every input. "
  "The fixpoint print(parse(print(t))) = print(t) and the single trailing newline are covered by a bounded stand-in on the C02 corpus (both modes, two rounds per process), labelled bounded.",
  "Audits only (no SMT obligations): besides the printer audits, no function reachable from the lexer or the parser uses a package-level variable written after initialisation (token tables excepted on the strength of the interning contracts proved under C16), so the output is a function of the input text alone; the fixpoint itself is bounded only."),
 "C04": ("proof",
  "Proved for all inputs: the guard discipline of the function-result cache. applyFunction stores a result only when the callee scope's miss counter did not move during the body and the result is not an error (preconditions at the call to Cache.Set), and every call that could not be cached is counted in the caller's scope (the genuine defect found here - a callee's outside lookup did not reach the caller - is fixed); "
  "the miss counter of every scope is monotone across every evaluator step and every Environment getter/setter (quantified frame clause on 30 functions), and applyExtension counts an extension marked DontCache before calling it. "
  "That equal arguments and no counted lookup imply equal result and output is a two-run relation over the whole interpreter: bounded differential stand-in (1500 generated programs quick, 20000 thorough) through a build-tag hook that switches the cache off. Two genuine deviations (callers of a redefined or rebound function keep their cached results) are recorded as known findings.",
  "Assumed: DontCache marking of extensions, Cache key construction, Go map semantics, quote/extension callbacks monotone; hook eval.VerifNoCache."),
 "C05": ("proof",
  "Proved for all inputs: the register-file discipline the optimisation depends on — MakeRegister/ReleaseRegister never panic under their capacity and LIFO contracts, "
  "evalForInteger leaves numReg unchanged on every normal-return exit (end, break, continue, return, error, rejected register) and only allocates when a slot is free, "
  "extendFunctionEnv allocates parameter registers only while the fresh environment has room, CopyRegister/evalExpressions never let a *Register escape as an argument. "
  "The observational equivalence of registers on/off over whole programs is a two-run relation over the rewritten body that per-function contracts cannot state; it is covered by a bounded differential stand-in "
  "(3000 generated programs quick, 40000 thorough), labelled bounded and not counted as proved. Seven genuine differences are recorded as known findings.",
  "Assumed: 0 <= numReg on entry of evalForInteger and function objects carrying an environment (data invariants, @assumed preconditions), setupRegister's frame (ast.Modify callback), (*Register).Ptr non-nil, (*State).quote; panic exits are covered through the exceptional postconditions (onpanic ensures) of C10."),
 "C06": ("proof",
  "The functions that implement index assignment, element deletion and + on arrays and maps carry the postcondition 'no element of any slice/array block that existed before the call has changed' (memsame), which is what every other binding, argument or container element of the old value observes; "
  "map merging (SmallMap.Append, BigMap.Append, SmallMap.Set) is proved to write only storage the call allocates, BigMap.Set/Delete are proved against an explicit frame (their receiver's pairs only). For big arrays and big maps the in-place writes of evalIndexAssigment, deleteMapEntry and array + fail these obligations: genuine defects (the repairs cost O(n) per element assignment and were measured to slow the repository's own examples 30x, so they are recorded, not fixed). "
  "An SSA audit lists every function that can write pre-existing element memory at all; each is under a C06 contract or on a reviewed list. A bounded stand-in (sizes 0..20, literal and appended histories) cross-checks with concrete programs.",
  "Assumed: Environment.Get frame, slices.Insert contract, reviewed writers (sort adapter, per-call argument slices, syntax-tree rewriting), extensions that build containers. Bounded stand-in is not a proof."),
 "C07": ("proof",
  "Zero-annotation safety sweep plus contracts: for the functions reachable from program evaluation that are under contract, every index, slice, nil dereference, type assertion, division, shift, make() size and explicit panic site is an "
  "obligation proved unreachable for all inputs (or named in a maypanic clause that the caller handles as a language error). Extension calls go through applyExtension whose dyncall contract requires the argument-count/type checks to have passed; 33 extension callbacks (listed in ext_claimed.txt) are themselves verified, with integer-overflow obligations, under contracts the check synthesises on every run from their registration records (name, arity bounds, argument types, client data re-derived from the SSA of the registering functions) - one genuine defect found this way is fixed (regsub's arity).",
  "Coverage is the set of functions tagged C07 in the contract files, not the whole interpreter: functions outside it - including the 14 extension callbacks with open obligations and the 10 registrations made in loops or with non-constant records - are listed in the evidence as unverified. Assumed stdlib contracts (library calls inside callbacks are abstracted); allocation failure (out of memory) is outside the model except where C09 guards it."),
 "C08": ("proof",
  "No input makes the lexer or the parser panic: the lexer functions are proved total and memory-safe for every byte string (the same contracts as C16, including NUL and invalid UTF-8), and every function of parser/parser.go is verified under the parser invariant wfP "
  "(lexer well formed, current and look-ahead token present, a line-comment token is followed by a newline or the end of input) established by New and preserved by every parse function: no nil dereference, index, nil-map, nil-function-value or type-assertion panic, "
  "and the explicit panic in parseComment is unreachable (from the lexer's line-comment postcondition). Calls through the three Pratt tables (function values looked up by token type) are verified as calls of ghost stand-ins whose switch is audited on every run to be exactly the table New registers. "
  "Termination of the parser's recursion and the printer (PrettyPrint) are not proved: the printer is covered by a bounded stand-in that feeds every token sequence up to a stated length and a corpus of mutated programs through parser+printer, labelled bounded.",
  "Assumed: token tables initialised by token.Init (tablesOK, byTypeOK); every AST node handed to okParamList carries a token (ast.Node.Value contract); New receives a lexer built by the lexer constructors; termination and stack depth of the recursive descent; bounded stand-in is not a proof."),
 "C09": ("proof",
  "The memory guard arithmetic is proved: every allocation site reachable from string/array repetition, concatenation, append and MakeObjectSlice is preceded on all paths by a check that bounds the requested bytes by the ghost memory budget "
  "(guard.alloc obligations generated at each make/append/Repeat), with 64-bit overflow modelled. Two unguarded sites are recorded as known findings.",
  "Assumed: runtime.MemStats-based FreeMemory is an oracle for the budget (contract assumed); sizes of Go values per amd64."),
 "C10": ("proof",
  "Normal-return paths: every member of the evaluator family (Eval, evalInternal and the 20 eval* / apply* functions it dispatches to) is verified, assuming the others' contracts, to return with the session's scope pointer, recursion depth, output writer and the register count of every pre-existing scope exactly as on entry "
  "(frame and regs clauses) - so an input that ends in a language error, a timeout error or a depth error returned as a value leaves none of these behind. Recovered panics: the deferred handler of repl.EvalOne is verified to reset scope and depth and to restore the writer saved at entry (the genuine defect found here is fixed). "
  "What 'every later input produces the same output' additionally needs - bindings, cache and macro store untouched by an input that failed before any side effect - is a whole-history relation outside per-function contracts; a bounded history stand-in compares sessions with and without failing inputs.",
  "Assumed: (*State).quote frame (callback through ast.Modify), extension callbacks preserve the frame (dyncall ensures), Go panic unwinding itself is not modelled (only the handler's effect); bounded stand-in is not a proof."),
 "C11": ("proof",
  "SmallMap.get/Set and the sorted-pairs representation are proved against an abstract map view (sortedness, no duplicate keys, lookup = view) using the uninterpreted-but-lawful Cmp of C12; "
  "BigMap operations that go through slices.BinarySearchFunc/Insert use assumed stdlib contracts. Merge/delete on big maps and the small/large threshold crossing are covered by a bounded model comparison (operation histories up to 5 steps over 7-8 keys of mixed types, and every merge L + R over all subsets of 8 mixed and of 9 numeric keys), labelled bounded.",
  "Assumed: Cmp is a total preorder on keys (proved for scalars in C12, with the recorded int/float finding); slices.* contracts."),
 "C12": ("proof",
  "Cmp/Equals order laws (reflexivity, antisymmetry, transitivity, totality, consistency of Equals with Cmp==0) are lemmas over the real Cmp body unfolded for scalar operands: integers as 64-bit vectors, floats as IEEE doubles including NaN and ±0, strings, booleans, nil. "
  "The int↔float mixed comparison is not transitive beyond 2^53: recorded as a known finding with the solver's witness. For all operands, containers included, the real recursive Cmp is proved to return -1, 0 or 1 (induction through its own contract), and an SSA audit shows that nothing reachable from Cmp / Equals applies Go's == to two interface values (which would panic on functions, errors, large arrays and maps). The remaining laws on containers (element-wise recursion) are covered by a bounded stand-in whose universe includes containers holding such values.",
  "Assumed: string comparison axioms (strcmp) in the prelude; container Cmp recursion bounded."),
 "C13": ("proof",
  "Structural core decided on SSA over the whole repository, for every input: syntax trees are immutable after construction. No function stores into a field of a syntax-tree node or into an element of a []ast.Node block that it did not allocate in the same activation, except DefineMacros (which removes definitions from the program it is given); ast.Modify/ModifyNoOk are therefore copying rewriters (the class of the sharing bug of issue #223), macro objects are written only at creation, and quoteArgs calls nothing. "
  "This gives: a definition is not altered by its uses, call sites expand independently, arguments are not evaluated during expansion. That the expanded tree is exactly the hand-substituted one is a relation over all templates and is covered by a bounded stand-in (20 templates incl. nested quotes x 12 argument tuples x 9 contexts incl. nested macro calls and a session through repl.EvalOne, printed, re-parsed and evaluated), labelled bounded.",
  "The structural clauses are audits on the real code's SSA (no SMT obligations), including that the per-node callbacks of ExpandMacros / DefineMacros write no captured variable or map (call sites share no state); freshness is syntactic per activation. Bounded stand-in is not a proof."),
 "C14": ("proof",
  "Structural core decided on the SSA of the real SaveGlobals / Inspect code, for every state: the file is written only through two fmt.Fprintf calls with the constant formats \"%s\\n\" and \"%s=%s\\n\" (one terminated line per binding), the name=value write is reached only when no limit is configured or len(val) > limit is false for the very string that is written and the function slices no string (over-long values are skipped, never truncated), the keys are sorted before the first write (the file is a function of the bindings), String.Inspect is strconv.Quote, and every branch of SaveGlobals is one of the known ones (loop conditions, built-in constant names, function / named function, size limit, write errors), so no other condition can leave a binding out. SaveGlobals's write-error contract (C18) is re-proved. "
  "That the saved text parses and evaluates back to an equal value of the same type, and functions to equally behaving functions, goes through printer, lexer, parser and evaluator: bounded stand-in (33 data bindings across all kinds and both size thresholds, 14 functions, reload whole and line by line and through AutoSave/AutoLoad, re-save; and, because function bodies are saved through the printer, the print/parse round-trip corpus of C02). One genuine defect found by it is fixed (control-character escapes); recorded as known findings: integral floats reload as integers; the smallest integer reloads as a float; the two printer findings of C02 as they show through saved function bodies.",
  "The structural clauses are audits (no SMT obligations besides SaveGlobals's C18 contract); library formatting functions are trusted to produce newline-free text; the round trip itself is bounded only."),
 "C15": ("proof",
  "Lexer level, decided for every input: the two modes differ only in the end marker. The field Lexer.lineMode is read by exactly one function (EOLEOF, contract proved: EOL in line mode, EOF otherwise), written only by the constructor on the object it allocates, and EOLEOF's result flows only into NextToken's return value (three SSA audit clauses); with NextToken's C16 contract this makes every non-end token and every lexer position the same function of (input, position) in both modes. "
  "The parser (prefix/infix function-value tables) is outside govc's subset, so 'same tree', 'asks for more input' and the statement-by-statement session equivalence are covered by a bounded stand-in over the repository's examples, tests and generated programs (every token-boundary prefix), labelled bounded. One genuine deviation is recorded as a known finding.",
  "Also proved under C15 (the lexer contracts of C16 re-verified): an end token produced by an unclosed string or block comment has consumed the rest of the input, so none of its text is lexed as program tokens. Assumed: no reflective/unsafe access to the mode field; what the parser returns (same tree, continuation request) only bounded - C08 proves its panic freedom, not its results."),
 "C16": ("proof",
  "Token-stream tiling: NextToken and every helper are proved, for every input and lexer state satisfying wf(l), to return a token whose span is exactly input[s:pos] (after skipped whitespace), to advance, to stay within bounds, and to keep the intern tables consistent; "
  "comment bodies are minimal, EOF is sticky except at the two recorded NUL-byte findings.",
  "Assumed: unicode/utf8 decoding contracts; the intern table is only written through token.Intern* (write audit)."),
 "C17": ("proof",
  "sanitizeFileName is proved to return only names without path separators and with the .gr suffix; every file-system, process and network sink call site in the packages reachable from program evaluation is enumerated from SSA and its @C17 precondition "
  "(path is a sanitised name or IO is unrestricted) is an obligation; registration of shell/load/save extensions only under the corresponding Config flags is decided by SSA audits.",
  "Assumed: the sink list is complete; symlinks and OS-level indirections are not modelled; host packages (repl, main, wasm) are outside the property."),
 "C18": ("proof",
  "saveFunc/AutoSave typestate: ghost state tracks temp-file creation, write, close and rename; postconditions state that the destination is only replaced by a fully written and closed temp file on every return path, and that error paths leave the destination untouched.",
  "Assumed: os.CreateTemp/Rename/File.Close contracts (atomic rename on the same directory); crash points between syscalls are not modelled."),
 "C19": ("proof",
  "object.Constant's definition and Environment.CreateOrSet's refusal of a different value for a constant name are proved; SSA audits decide that Environment.store is written only by the environment's own setters, that evaluator write paths go through the checking setter, and that its result is not discarded. "
  "Three genuine defects are recorded as known findings. A bounded stand-in tries every mutation syntax on every value kind.",
  "Assumed: macro environments are not program bindings; scoping of Set through references relies on assumed Eval-family contracts."),
 "C20": ("proof",
  "Trie Insert/Contains/Prefix/AllBytes are proved against an abstract set-of-words view with loop invariants over the path from the root; a bounded set-model comparison cross-checks the completion order.",
  "Assumed: map[rune]*Trie children modelled as SMT arrays; completion ordering beyond the contract is bounded."),
}

NOT_APPLICABLE = {
}

def main():
    log = subprocess.run(["git", "-C", "/repo", "log", "--format=%h %s"], capture_output=True, text=True).stdout.splitlines()
    hooks = [l.split()[0] for l in log if l.split(" ", 1)[1].startswith("verif:")]
    hooks.reverse()
    ids = sorted(CLAIMS)
    m = {
        "version": 1,
        "setup_cmd": "cd /verif/govc && GOFLAGS=-mod=mod GOPROXY=off go build -o ../bin/govc .",
        "hooks": {
            "guard": "verif",
            "enable": "contracts live in /repo/<pkg>/verif_contracts.go (//go:build verif; comments plus ghost lemma functions that grol never calls); govc loads /repo with -tags=verif",
            "baseline_off_cmd": "cd /repo && GOFLAGS=-mod=mod GOPROXY=off go test -vet=off -count=1 ./...",
            "source_commits": hooks,
            "add_only": True,
        },
        "engines": [{
            "name": "govc", "path": "/verif/govc", "serves_properties": ids,
            "kind_free_text": "contract-based deductive verifier for Go written for this task: go/ssa -> weakest-precondition style passive SMT encoding, contracts as //@ comments, obligations discharged by z3/cvc5; SSA audits for structural clauses; bounded stand-ins via go test -overlay (labelled bounded)",
        }],
        "checks": [],
        "not_applicable": [{"property_id": k, "reason": v} for k, v in sorted(NOT_APPLICABLE.items()) if k not in CLAIMS],
    }
    for i in ids:
        cat, text, note = CLAIMS[i]
        m["checks"].append({
            "property_id": i,
            "quick_cmd": f"./check {i} quick",
            "thorough_cmd": f"./check {i} thorough",
            "evidence_file": f"/verif/evidence/{i}.json",
            "engine": "govc",
            "level_claimed": {"category": cat, "text": text, "design_ref": f"DESIGN.md section 2 {i}"},
            "level_note": note,
            "technique": TECH,
        })
    json.dump(m, open("/verif/MANIFEST.json", "w"), indent=1)
    print("wrote MANIFEST.json:", len(m["checks"]), "checks,", len(m["not_applicable"]), "not applicable,", len(hooks), "hook commits")

main()
