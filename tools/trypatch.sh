#!/bin/sh
# trypatch.sh <patch.diff> <prop> [<prop>...]: run checks against a scratch copy of /repo with the patch applied.
# Scratch copy and outputs live under a mktemp dir that is removed afterwards.
set -u
patch="$1"; shift
d=$(mktemp -d /tmp/trypatch.XXXXXX)
trap 'rm -rf "$d"' EXIT
rsync -a --exclude .git /repo/ "$d/repo/"
( cd "$d/repo" && git init -q . >/dev/null 2>&1; patch -p1 -s < "$patch" ) || { echo "patch failed"; exit 2; }
cd /verif
[ -x bin/govc ] || (cd govc && GOFLAGS=-mod=mod GOPROXY=off go build -o ../bin/govc .)
rc=0
for p in "$@"; do
  GOFLAGS=-mod=mod GOPROXY=off bin/govc check -repo "$d/repo" -prop "$p" -out "$d/out" | grep -v "^KNOWN-FINDING" | tail -6 || true
done
