#!/bin/bash
# selftest.sh [seed...]: must-fail corpus. Applies each seeded/<id>/patch.diff to a scratch copy of /repo (removed
# afterwards) and runs the property's quick check there: every seed must produce a VIOLATION (exit 1).
cd /verif
[ $# -gt 0 ] && seeds="$*" || seeds=$(ls seeded)
(cd govc && GOFLAGS=-mod=mod GOPROXY=off go build -o ../bin/govc .) || exit 2
one() {
  n="$1"
  prop=$(python3 -c "import json;print(json.load(open('seeded/$n/meta.json'))['property'])")
  d=$(mktemp -d /tmp/selftest.XXXXXX)
  rsync -a --exclude .git /repo/ "$d/repo/"
  if ! ( cd "$d/repo" && patch -p1 -s < /verif/seeded/$n/patch.diff ); then echo "$n $prop PATCH-FAILED"; rm -rf "$d"; return; fi
  GOFLAGS=-mod=mod GOPROXY=off bin/govc check -repo "$d/repo" -prop "$prop" -out "$d/out" > "$d/log" 2>&1
  rc=$?
  nv=$(grep -c "^VIOLATION" "$d/log")
  first=$(grep "^  failed\|^  unknown" "$d/log" | head -1 | cut -c1-140)
  if [ $rc -eq 1 ] && [ $nv -gt 0 ]; then echo "$n $prop CAUGHT violations=$nv first:$first"; else echo "$n $prop MISSED rc=$rc"; fi
  rm -rf "$d"
}
for n in $seeds; do
  one $n &
  while [ $(jobs -r | wc -l) -ge 3 ]; do sleep 1; done
done
wait
